// C24 — distribute_partition, whole input space, split into 8 slices of the partition
// count (n >> 13 == K) so that the slices are decided in parallel.
fn check_result(h: u16, n: u16, rf: u8, r: &ArrayVec<PartitionId, MAX_REPLICATION_FACTOR>) {
    let want = cmp::min(rf as usize, cmp::min(n as usize, MAX_REPLICATION_FACTOR));
    assert!(r.len() == want, "length == min(rf, n, 12)");
    if n == 0 || rf == 0 {
        assert!(r.is_empty(), "empty when n == 0 or rf == 0");
        return;
    }
    assert!(r[0] == h % n, "first == hash mod n");
    // for all i < j < len (symbolic indices stand for every pair)
    let i: usize = kani::any();
    let j: usize = kani::any();
    kani::assume(i < j && j < r.len());
    assert!(r[i] < n && r[j] < n, "every id < n");
    assert!(r[i] != r[j], "pairwise distinct");
}

fn shape(k: u16) {
    let h: u16 = kani::any();
    let n: u16 = kani::any();
    let rf: u8 = kani::any();
    kani::assume(n >> 13 == k);
    let r = distribute_partition(h, n, rf);
    check_result(h, n, rf, &r);
    kani::cover!(r.len() == MAX_REPLICATION_FACTOR);
    kani::cover!(r.len() > 1 && rf as usize > r.len());
}

fn prefix(k: u16) {
    let h: u16 = kani::any();
    let n: u16 = kani::any();
    let rf1: u8 = kani::any();
    let rf2: u8 = kani::any();
    kani::assume(n >> 13 == k);
    kani::assume(rf1 <= rf2);
    let a = distribute_partition(h, n, rf1);
    let b = distribute_partition(h, n, rf2);
    assert!(a.len() <= b.len(), "smaller rf => not longer");
    let i: usize = kani::any();
    kani::assume(i < a.len());
    assert!(a[i] == b[i], "smaller rf yields a prefix");
    kani::cover!(a.len() >= 2 && b.len() > a.len());
}

macro_rules! slices {
    ($($k:literal => $s:ident, $p:ident;)*) => {$(
        #[kani::proof]
        #[kani::unwind(14)]
        fn $s() { shape($k) }
        #[kani::proof]
        #[kani::unwind(14)]
        fn $p() { prefix($k) }
    )*};
}
slices! {
    0 => c24_shape_n0, c24_prefix_n0_unused;
    1 => c24_shape_n1, c24_prefix_n1;
    2 => c24_shape_n2, c24_prefix_n2;
    3 => c24_shape_n3, c24_prefix_n3;
    4 => c24_shape_n4, c24_prefix_n4;
    5 => c24_shape_n5, c24_prefix_n5;
    6 => c24_shape_n6, c24_prefix_n6;
    7 => c24_shape_n7, c24_prefix_n7;
}

/// small partition counts (what deployments use), whole hash x rf space, all three clauses at once
#[kani::proof]
#[kani::unwind(14)]
fn c24_small_n_all() {
    let h: u16 = kani::any();
    let n: u16 = kani::any();
    let rf: u8 = kani::any();
    kani::assume(n <= 64);
    let r = distribute_partition(h, n, rf);
    check_result(h, n, rf, &r);
    kani::cover!(n == 3 && r.len() == 3);
    kani::cover!(n == 0);
}

fn prefix_range(lo: u16, hi: u16) {
    let h: u16 = kani::any();
    let n: u16 = kani::any();
    let rf1: u8 = kani::any();
    let rf2: u8 = kani::any();
    kani::assume(n >= lo && n <= hi);
    kani::assume(rf1 <= rf2);
    let a = distribute_partition(h, n, rf1);
    let b = distribute_partition(h, n, rf2);
    assert!(a.len() <= b.len(), "smaller rf => not longer");
    let i: usize = kani::any();
    kani::assume(i < a.len());
    assert!(a[i] == b[i], "smaller rf yields a prefix");
    kani::cover!(a.len() >= 2 && b.len() > a.len());
}

@SUB0@

#[kani::proof]
#[kani::unwind(14)]
fn c24_vacuity_witness() {
    let r = distribute_partition(kani::any(), kani::any(), kani::any());
    kani::assume(r.len() == 12);
    assert!(false, "vacuity witness");
}
