// C19 — appends that fit an empty segment never fail for lack of space: the size estimate and the
// rollover decision of Worker::handle_append_events (verbatim statement range) against the size that is
// actually stored. Stored-size model (assumptions, validated by the native reproducer replay-cluster c19):
//   * an uncompressed event record occupies exactly EVENT_HEADER_SIZE + the four field lengths; a commit
//     record COMMIT_SIZE (multi-event transactions only)
//   * with compression on and >= MIN_COMPRESSION_SIZE (128) data bytes the record stores
//     RECORD_HEAD + confirmation byte + 4-byte original length + c bytes, with c ANY value in
//     [1, n + n/256 + 64] (n = uncompressed data bytes; an upper bound of ZSTD_compressBound for n < 128 KiB)
//   * seglog rejects a record with SegmentFull iff offset + record_len > segment size
use std::mem;
type Uuid = [u8; 16];
type BucketId = u16;
type PartitionId = u16;
const RECORD_HEAD_SIZE: usize = 8; // seglog: len + crc32c
const MIN_COMPRESSION_SIZE: usize = 128; // seglog

// ---- verbatim constants from crates/sierradb/src/bucket/segment.rs
@CONSTS@

pub struct Len(pub usize);
impl Len {
    pub fn len(&self) -> usize { self.0 }
}
pub struct MockEvent { stream_id: Len, event_name: Len, metadata: Len, payload: Len }
#[derive(Debug)]
pub enum WriteError { EventsExceedSegmentSize, Other }
pub struct MockWriter { off: u64 }
impl MockWriter {
    pub fn write_offset(&self) -> u64 { self.off }
}
pub struct MockWriterSet { writer: MockWriter, compression: bool, segment_size: usize, rolled: u32 }
impl MockWriterSet {
    /// a fresh segment: the write offset restarts right after the segment header
    pub fn rollover(&mut self) -> Result<(), WriteError> {
        self.rolled += 1;
        self.writer.off = SEGMENT_HEADER_SIZE as u64;
        Ok(())
    }
}
static mut REJECTED: bool = false;
static mut OUT: Option<(u64, usize)> = None;
pub struct Reply;
impl Reply {
    pub fn send(self, r: Result<(), WriteError>) -> Result<(), ()> {
        if r.is_err() { unsafe { REJECTED = true; } }
        std::mem::forget(r);
        Ok(())
    }
}
fn get_uuid_flag(single: &bool) -> bool { *single }

fn decide(writer_set: &mut MockWriterSet, events: &[MockEvent], transaction_id: bool, reply_tx: Reply) {
    // ---- verbatim from Worker::handle_append_events (crates/sierradb/src/writer_thread_pool.rs)
@SLICE@
    // ----
    unsafe { OUT = Some((write_offset, events_size)); }
}

const NEV: usize = @NEV@;
const MAXLEN: usize = 100_000;

fn check(nev: usize) {
    let compression: bool = kani::any();
    let segment_size: usize = kani::any();
    kani::assume(segment_size >= 4096 && segment_size <= (1 << 22));
    let fill: u64 = kani::any(); // current write offset of the live segment
    kani::assume(fill >= SEGMENT_HEADER_SIZE as u64 && fill <= segment_size as u64);
    let mut events: Vec<MockEvent> = Vec::with_capacity(NEV);
    let mut stored_total: usize = 0;
    let mut i = 0;
    while i < nev {
        let (a, b, c, d): (usize, usize, usize, usize) = (kani::any(), kani::any(), kani::any(), kani::any());
        kani::assume(a >= 1 && a <= 64 && b >= 1 && b <= 255 && c <= MAXLEN && d <= MAXLEN);
        let raw = EVENT_HEADER_SIZE + a + b + c + d;           // whole uncompressed record
        let data = raw - RECORD_HEAD_SIZE - CONFIRMATION_HEADER_SIZE; // bytes handed to seglog as `data`
        let stored = if compression && data >= MIN_COMPRESSION_SIZE {
            let comp: usize = kani::any();
            kani::assume(comp >= 1 && comp <= data + (data >> 8) + 64);
            RECORD_HEAD_SIZE + CONFIRMATION_HEADER_SIZE + 4 + comp
        } else {
            raw
        };
        stored_total += stored;
        events.push(MockEvent { stream_id: Len(a), event_name: Len(b), metadata: Len(c), payload: Len(d) });
        i += 1;
    }
    let single = nev == 1; // single-event transactions carry the flag and have no commit record
    if !single { stored_total += COMMIT_SIZE; }
    let mut ws = MockWriterSet { writer: MockWriter { off: fill }, compression, segment_size, rolled: 0 };
    unsafe { REJECTED = false; OUT = None; }
    decide(&mut ws, &events, single, Reply);
    unsafe {
        if REJECTED {
            // the documented EventsExceedSegmentSize limit: only legitimate if the transaction (by the writer's own
            // estimate) does not fit an empty segment; a transaction whose stored size needs more than a segment is fine too
            assert!(OUT.is_none());
        } else {
            let (_, estimate) = OUT.unwrap();
            let fits_empty = stored_total + SEGMENT_HEADER_SIZE <= segment_size;
            if fits_empty {
                // seglog writes the records one after the other from the (possibly rolled-over) write offset
                assert!(ws.writer.off as usize + stored_total <= segment_size,
                        "a transaction whose stored size fits an empty segment is rejected with SegmentFull (no rollover was chosen, so every retry fails the same way)");
            }
            assert!(ws.rolled <= 1);
            if ws.rolled == 1 { assert!(fill as usize + estimate > segment_size, "rolled over although the estimate fitted"); }
            kani::cover!(ws.rolled == 1 && compression, "rollover chosen with compression on");
            kani::cover!(ws.rolled == 0 && compression && stored_total > estimate - 80, "stored size close to the estimate");
        }
    }
    std::mem::forget(events);
}

#[kani::proof]
#[kani::unwind(@UNW@)]
fn c19_one_event() { check(1); }

#[kani::proof]
#[kani::unwind(@UNW@)]
fn c19_two_events() { check(2); }

#[kani::proof]
#[kani::unwind(@UNW@)]
fn c19_vacuity_witness() {
    let mut ws = MockWriterSet { writer: MockWriter { off: 4000 }, compression: false, segment_size: 4096, rolled: 0 };
    let mut events = Vec::with_capacity(1);
    events.push(MockEvent { stream_id: Len(1), event_name: Len(1), metadata: Len(0), payload: Len(100) });
    unsafe { REJECTED = false; OUT = None; }
    decide(&mut ws, &events, true, Reply);
    kani::assume(ws.rolled == 1);
    assert!(false, "vacuity witness");
}
