// C25 — expected-version algebra. Appended to a crate that depends on the real
// sierradb-protocol (path dependency on /repo) and contains the verbatim slice of
// `validate_partition_sequence` from crates/sierradb/src/writer_thread_pool.rs.
use sierradb_protocol::{CurrentVersion, ExpectedVersion, VersionGap};

fn any_expected() -> ExpectedVersion {
    match kani::any::<u8>() & 3 {
        0 => ExpectedVersion::Any,
        1 => ExpectedVersion::Exists,
        2 => ExpectedVersion::Empty,
        _ => ExpectedVersion::Exact(kani::any()),
    }
}

fn any_current() -> CurrentVersion {
    if kani::any() { CurrentVersion::Empty } else { CurrentVersion::Current(kani::any()) }
}

/// gap_from never panics, for every (expected, current) over the full u64 range,
/// and reports the signed distance (saturated at u64::MAX where 2^64 is not representable).
#[kani::proof]
fn c25_gap_from_total_and_distance() {
    let e = any_expected();
    let c = any_current();
    let g = e.gap_from(c);
    // reference distance in u128: position = number of events = next version
    let cur_n: u128 = match c { CurrentVersion::Empty => 0, CurrentVersion::Current(v) => v as u128 + 1 };
    match e {
        ExpectedVersion::Any => assert!(g == VersionGap::None, "gap: any"),
        ExpectedVersion::Exists => {
            assert!((g == VersionGap::None) == (cur_n > 0), "gap: exists");
            assert!((g == VersionGap::Incompatible) == (cur_n == 0), "gap: exists incompatible");
        }
        ExpectedVersion::Empty | ExpectedVersion::Exact(_) => {
            let exp_n: u128 = match e { ExpectedVersion::Empty => 0, ExpectedVersion::Exact(v) => v as u128 + 1, _ => unreachable!() };
            let sat = |d: u128| if d > u64::MAX as u128 { u64::MAX } else { d as u64 };
            if exp_n == cur_n {
                assert!(g == VersionGap::None, "gap: equal => None");
            } else if cur_n > exp_n {
                assert!(g == VersionGap::Ahead(sat(cur_n - exp_n)), "gap: ahead distance");
            } else {
                assert!(g == VersionGap::Behind(sat(exp_n - cur_n)), "gap: behind distance");
            }
        }
    }
    kani::cover!(matches!(g, VersionGap::Ahead(_)));
    kani::cover!(matches!(g, VersionGap::Behind(_)));
    kani::cover!(matches!(g, VersionGap::Incompatible));
}

/// is_satisfied_by(e, cur) holds exactly when the store's own check accepts e at cur.next().
#[kani::proof]
fn c25_satisfied_iff_store_accepts() {
    let e = any_expected();
    let c = any_current();
    // CurrentVersion::next() of Current(u64::MAX) is not representable; a stream of 2^64 events is outside the domain
    kani::assume(c != CurrentVersion::Current(u64::MAX));
    let accepted = validate_partition_sequence(kani::any(), e, c.next()).is_ok();
    assert!(e.is_satisfied_by(c) == accepted, "is_satisfied_by <=> store accepts");
    kani::cover!(accepted && matches!(e, ExpectedVersion::Exact(_)));
    kani::cover!(!accepted && matches!(e, ExpectedVersion::Exact(_)));
    kani::cover!(!accepted && matches!(e, ExpectedVersion::Empty));
}

/// The store's rejection reports the real current version.
#[kani::proof]
fn c25_store_rejection_reports_current() {
    let e = any_expected();
    let c = any_current();
    kani::assume(c != CurrentVersion::Current(u64::MAX));
    match validate_partition_sequence(7, e, c.next()) {
        Ok(()) => {}
        Err(WriteError::WrongExpectedSequence { partition_id, current, expected }) => {
            assert!(partition_id == 7 && current == c && expected == e, "rejection carries current/expected");
            kani::cover!(true);
        }
        #[allow(unreachable_patterns)]
        Err(_) => assert!(false, "unexpected error kind"),
    }
}

/// from_next_version / into_next_version are mutually inverse on their domains.
#[kani::proof]
fn c25_next_version_inverse() {
    let v: u64 = kani::any();
    let e = ExpectedVersion::from_next_version(v);
    assert!(e.into_next_version() == Some(v), "into(from(v)) == v");
    assert!((v == 0) == (e == ExpectedVersion::Empty), "from_next(0) is Empty");
    let e2 = if kani::any() { ExpectedVersion::Empty } else { ExpectedVersion::Exact(kani::any()) };
    match e2.into_next_version() {
        Some(n) => assert!(ExpectedVersion::from_next_version(n) == e2, "from(into(e)) == e"),
        None => assert!(e2 == ExpectedVersion::Exact(u64::MAX), "only Exact(MAX) has no next"),
    }
    kani::cover!(e2 == ExpectedVersion::Exact(u64::MAX));
}

/// CurrentVersion::next / += / as_expected_version agree with the position model.
#[kani::proof]
fn c25_current_version_arith() {
    let c = any_current();
    let rhs: u64 = kani::any();
    let n: u128 = match c { CurrentVersion::Empty => 0, CurrentVersion::Current(v) => v as u128 + 1 };
    kani::assume(n + rhs as u128 <= u64::MAX as u128); // representable results only
    let mut d = c;
    d += rhs;
    let dn: u128 = match d { CurrentVersion::Empty => 0, CurrentVersion::Current(v) => v as u128 + 1 };
    assert!(dn == n + rhs as u128, "+= advances the position by rhs");
    assert!(c.next() as u128 == n, "next() is the position");
    assert!(c.as_expected_version().is_satisfied_by(c), "as_expected_version is satisfied by itself");
    assert!(ExpectedVersion::from_next_version(c.next()) == c.as_expected_version(), "from_next(next) == as_expected");
    kani::cover!(c == CurrentVersion::Empty && rhs > 0);
}

// ---- Display / FromStr round trip. to_string of a symbolic u64 is 20 rounds of 64-bit
// div/mod by 10: the value is therefore taken from a symbolic *window* around a concrete
// boundary (all 2^16 offsets), one harness per boundary set.
fn roundtrip(v: u64) {
    let e = ExpectedVersion::Exact(v);
    let s = e.to_string();
    let back: ExpectedVersion = s.parse().expect("display output parses");
    assert!(back == e, "parse(display(Exact(v))) == Exact(v)");
    let c = CurrentVersion::Current(v);
    let s = c.to_string();
    let back: CurrentVersion = s.parse().expect("display output parses");
    assert!(back == c, "parse(display(Current(v))) == Current(v)");
}

#[kani::proof]
#[kani::unwind(24)]
fn c25_display_parse_keywords() {
    for e in [ExpectedVersion::Any, ExpectedVersion::Exists, ExpectedVersion::Empty] {
        let s = e.to_string();
        let back: ExpectedVersion = s.parse().expect("keyword parses");
        assert!(back == e, "keyword round trip");
    }
    let s = CurrentVersion::Empty.to_string();
    assert!(s.parse::<CurrentVersion>().unwrap() == CurrentVersion::Empty, "empty round trip");
}

#[kani::proof]
#[kani::unwind(24)]
fn c25_display_parse_low() {
    let off: u8 = kani::any();
    roundtrip(off as u64);
}

#[kani::proof]
#[kani::unwind(24)]
fn c25_display_parse_high() {
    let off: u8 = kani::any();
    roundtrip(u64::MAX - off as u64);
}

#[kani::proof]
#[kani::unwind(24)]
fn c25_display_parse_mid() {
    let off: u8 = kani::any();
    let base: u64 = if kani::any() { 1 << 32 } else { 1 << 63 };
    roundtrip(base - 128 + off as u64);
}

#[kani::proof]
fn c25_vacuity_witness() {
    let e = any_expected();
    let c = any_current();
    kani::assume(c != CurrentVersion::Current(u64::MAX));
    let _ = e.is_satisfied_by(c);
    let _ = validate_partition_sequence(0, e, c.next());
    assert!(false, "vacuity witness");
}
