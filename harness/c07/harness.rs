// C07 — cluster reads only expose the quorum-confirmed prefix of a partition (the gating logic of the
// local read handlers). The handler bodies are verbatim slices of sierradb-cluster/src/read.rs; their
// environment is mocked:
//   * Database::read_partition / read_stream return an iterator over a modelled partition log of L events
//     (partition_sequence = index; ALL L events are stored, the ones at/after the watermark are the
//     unconfirmed ones a reader must never see); next_batch(limit) returns None for limit 0 or at the
//     end, else one single-event commit (the smallest batch the real iterator may return)
//   * ReplySender::send records the reply; the handler is taken as two verbatim statement ranges (before the
//     tokio::spawn and inside the spawned block) with `.await` stripped, because the mock iterator is synchronous
//     (the whole async handler under kani::block_on did not terminate)
// Symbolic: watermark, start, end (None / value), count, and for the stream handler which events belong
// to the stream (their stream_version = rank inside the stream).
use std::marker::PhantomData;

const L: usize = @L@;
const RL: usize = 4; // reply capacity >= every modelled log length

#[derive(Clone, Copy, Debug)]
pub struct EventRecord {
    pub partition_sequence: u64,
    pub stream_version: u64,
    pub confirmation_count: u8,
}
#[derive(Debug)]
pub struct PartitionEvents {
    pub events: Vec<EventRecord>,
    pub has_more: bool,
}
#[derive(Debug)]
pub struct StreamEvents {
    pub events: Vec<EventRecord>,
    pub has_more: bool,
}
#[derive(Debug)]
pub enum ClusterError {
    Read(String),
}
#[derive(Clone, Copy, Debug)]
pub enum IterDirection {
    Forward,
    Reverse,
}
pub type PartitionId = u16;
#[derive(Clone, Debug)]
pub struct StreamId(pub u8);
impl std::fmt::Display for StreamId {
    fn fmt(&self, f: &mut std::fmt::Formatter<'_>) -> std::fmt::Result {
        Ok(())
    }
}
#[derive(Debug)]
pub struct ReadErr;
impl std::fmt::Display for ReadErr {
    fn fmt(&self, f: &mut std::fmt::Formatter<'_>) -> std::fmt::Result {
        Ok(())
    }
}

static mut IN_STREAM: [bool; L] = [true; L]; // which log events belong to the stream being read

static mut P_REPLY: Option<(usize, [u64; RL], bool)> = None; // (n events, their partition sequences, has_more)
static mut REPLIED_ERR: bool = false;

pub struct ReplySender<T>(PhantomData<T>);
pub trait Recordable {
    fn record(self);
}
fn record_events(events: &Vec<EventRecord>, has_more: bool) {
    let mut seqs = [0u64; RL];
    let mut i = 0;
    while i < events.len() && i < RL {
        seqs[i] = events[i].partition_sequence;
        i += 1;
    }
    unsafe { P_REPLY = Some((events.len(), seqs, has_more)); }
}
impl Recordable for Result<PartitionEvents, ClusterError> {
    fn record(self) {
        match &self {
            Ok(p) => record_events(&p.events, p.has_more),
            Err(_) => unsafe { REPLIED_ERR = true },
        }
        std::mem::forget(self);
    }
}
impl Recordable for Result<StreamEvents, ClusterError> {
    fn record(self) {
        match &self {
            Ok(p) => record_events(&p.events, p.has_more),
            Err(_) => unsafe { REPLIED_ERR = true },
        }
        std::mem::forget(self);
    }
}
impl<T: Recordable> ReplySender<T> {
    pub fn send(self, v: T) {
        v.record();
    }
}

pub trait BatchIter {
    type Commit: IntoIterator<Item = EventRecord>;
    fn next_batch(&mut self, limit: usize) -> Result<Option<[Self::Commit; 1]>, ReadErr>;
}

fn rank(k: usize) -> u64 {
    let mut ver = 0u64;
    let mut j = 0;
    unsafe {
        while j < k && j < L {
            if IN_STREAM[j] { ver += 1; }
            j += 1;
        }
    }
    ver
}

/// variant S: single-event commits as one-element arrays
pub struct IterS { pos: usize, stream: bool }
impl BatchIter for IterS {
    type Commit = [EventRecord; 1];
    fn next_batch(&mut self, limit: usize) -> Result<Option<[[EventRecord; 1]; 1]>, ReadErr> {
        unsafe {
            while self.pos < L && self.stream && !IN_STREAM[self.pos] { self.pos += 1; }
            if self.pos >= L { return Ok(None); }
            let i = self.pos;
            // (the position advances also when limit == 0 returns None: both handlers stop at the first None and never
            // use the iterator again, so this is unobservable, and it keeps `pos` concrete for the symbolic executor)
            self.pos += 1;
            if limit == 0 { return Ok(None); }
            Ok(Some([[EventRecord { partition_sequence: i as u64, stream_version: rank(i), confirmation_count: 0 }]]))
        }
    }
}

/// variant T: every transaction has exactly two events (a log of L2/2 pairs), commits as two-element arrays
pub const L2: usize = 4;
pub struct IterT { pos: usize }
impl BatchIter for IterT {
    type Commit = [EventRecord; 2];
    fn next_batch(&mut self, limit: usize) -> Result<Option<[[EventRecord; 2]; 1]>, ReadErr> {
        if self.pos + 1 >= L2 { return Ok(None); }
        let i = self.pos;
        self.pos += 2; // (also on the limit == 0 path, see IterS)
        if limit == 0 { return Ok(None); }
        let e0 = EventRecord { partition_sequence: i as u64, stream_version: i as u64, confirmation_count: 0 };
        let e1 = EventRecord { partition_sequence: i as u64 + 1, stream_version: i as u64 + 1, confirmation_count: 0 };
        Ok(Some([[e0, e1]]))
    }
}

fn stream_start(start_version: u64) -> usize {
    let mut idx = 0;
    let mut ver = 0u64;
    unsafe {
        while idx < L {
            if IN_STREAM[idx] {
                if ver >= start_version { break; }
                ver += 1;
            }
            idx += 1;
        }
    }
    idx
}

/// The gating logic of handle_partition_read_locally: two verbatim statement ranges of the handler (the part before
/// `tokio::spawn` and the body of the spawned block from `let mut events` to the reply), `.await` stripped because the
/// mock iterator is synchronous.
fn partition_read_body<I: BatchIter>(mut iter: I, partition_id: PartitionId, watermark: u64, start_sequence: u64, end_sequence: Option<u64>, count: u64,
                       reply_sender: ReplySender<Result<PartitionEvents, ClusterError>>) {
@PART_A@
@PART_B@
}

fn stream_read_body<I: BatchIter>(mut iter: I, partition_id: PartitionId, stream_id: StreamId, watermark: u64, start_version: u64, end_version: Option<u64>, count: u64,
                    reply_sender: ReplySender<Result<StreamEvents, ClusterError>>) {
@STREAM_B@
}

fn setup() {
    unsafe {
        P_REPLY = None;
        REPLIED_ERR = false;
    }
}

fn check_reply(wm: u64, start_seq_lower_bound: u64) {
    unsafe {
        assert!(!REPLIED_ERR, "read failed");
        let Some((n, seqs, has_more)) = P_REPLY else { assert!(false, "no reply sent"); return; };
        assert!(n <= RL);
        let mut i = 0;
        while i < RL {
            if i < n {
                assert!(seqs[i] < wm, "an event at or beyond the confirmed watermark (not quorum-confirmed) was returned");
                assert!(seqs[i] >= start_seq_lower_bound, "an event before the requested start was returned");
                if i > 0 { assert!(seqs[i] > seqs[i - 1], "events out of order"); }
            }
            i += 1;
        }
    }
}

/// start position and transaction shape are shape parameters (every combination is instantiated); watermark, end and
/// count are symbolic. `pairs` = every transaction has two events (log of 4), else single-event transactions (log of 3).
fn partition_case(pairs: bool, start: u64) {
    let len = if pairs { L2 } else { L } as u64;
    let wm: u64 = kani::any();
    kani::assume(wm <= len);
    let end: Option<u64> = if kani::any() { None } else { let e: u64 = kani::any(); kani::assume(e <= len + 1); Some(e) };
    let count: u64 = kani::any();
    kani::assume(count <= len + 1);
    setup();
    let pos = if start > len { len as usize } else { start as usize };
    if pairs {
        partition_read_body(IterT { pos }, 1, wm, start, end, count, ReplySender(PhantomData));
    } else {
        partition_read_body(IterS { pos, stream: false }, 1, wm, start, end, count, ReplySender(PhantomData));
    }
    check_reply(wm, start);
    unsafe {
        let (n, seqs, has_more) = P_REPLY.unwrap();
        // completeness within the confirmed prefix: with an unbounded request everything confirmed from `start` is returned
        if end.is_none() && count > len && start < wm {
            assert!(n as u64 == wm - start, "confirmed events missing from an unbounded partition scan");
            assert!(!has_more, "has_more set although the confirmed prefix was exhausted");
        }
        // has_more must not hide existing confirmed events
        if n > 0 && !has_more {
            let last = seqs[n - 1];
            let cut_by_end = matches!(end, Some(e) if last >= e);
            if !cut_by_end { assert!(last + 1 >= wm || (n as u64) < count, "has_more false although confirmed events remain"); }
        }
        kani::cover!(n >= 1 || start >= len);
    }
}

@PART_INSTANCES@

/// which events belong to the stream and the start version are shape parameters; watermark, end and count symbolic
fn stream_case(member: [bool; L], start_version: u64) {
    let wm: u64 = kani::any();
    kani::assume(wm <= L as u64);
    unsafe { IN_STREAM = member; }
    let end: Option<u64> = if kani::any() { None } else { let e: u64 = kani::any(); kani::assume(e <= L as u64 + 1); Some(e) };
    let count: u64 = kani::any();
    kani::assume(count <= L as u64 + 1);
    setup();
    stream_read_body(IterS { pos: stream_start(start_version), stream: true }, 1, StreamId(0), wm, start_version, end, count, ReplySender(PhantomData));
    check_reply(wm, 0);
    unsafe {
        let (n, seqs, _) = P_REPLY.unwrap();
        let mut i = 0;
        while i < L {
            if i < n { assert!((seqs[i] as usize) < L && IN_STREAM[seqs[i] as usize], "an event of another stream was returned"); }
            i += 1;
        }
        // an unbounded scan from version 0 returns every confirmed event of the stream
        if end.is_none() && count > L as u64 && start_version == 0 {
            let mut want = 0usize;
            let mut j = 0;
            while j < L {
                if IN_STREAM[j] && (j as u64) < wm { want += 1; }
                j += 1;
            }
            assert!(n == want, "confirmed events of the stream missing from an unbounded stream scan");
        }
        kani::cover!(n >= 1 || wm == 0 || start_version > 0 || !member[0]);
    }
}

@STREAM_INSTANCES@

#[kani::proof]
#[kani::unwind(@UNW@)]
fn c07_vacuity_witness() {
    setup();
    partition_read_body(IterS { pos: 0, stream: false }, 1, 2, 0, None, 5, ReplySender(PhantomData));
    unsafe { kani::assume(matches!(P_REPLY, Some((n, _, _)) if n >= 1)); }
    assert!(false, "vacuity witness");
}
