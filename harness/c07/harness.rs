// C07 — cluster reads only expose the quorum-confirmed prefix of a partition (the gating logic of the
// local read handlers). The handler bodies are verbatim slices of sierradb-cluster/src/read.rs; their
// environment is mocked:
//   * Database::read_partition / read_stream return an iterator over a modelled partition log of L events
//     (partition_sequence = index; ALL L events are stored, the ones at/after the watermark are the
//     unconfirmed ones a reader must never see); next_batch(limit) returns None for limit 0 or at the
//     end, else one single-event commit (the smallest batch the real iterator may return)
//   * ReplySender::send records the reply; tokio::spawn runs the future to completion (mock futures are
//     always ready)
// Symbolic: watermark, start, end (None / value), count, and for the stream handler which events belong
// to the stream (their stream_version = rank inside the stream).
use std::future::Future;
use std::marker::PhantomData;
use std::sync::Arc;

const L: usize = @L@;

#[derive(Clone, Copy, Debug)]
pub struct EventRecord {
    pub partition_sequence: u64,
    pub stream_version: u64,
    pub confirmation_count: u8,
}
#[derive(Debug)]
pub struct PartitionEvents {
    pub events: Vec<EventRecord>,
    pub has_more: bool,
}
#[derive(Debug)]
pub struct StreamEvents {
    pub events: Vec<EventRecord>,
    pub has_more: bool,
}
#[derive(Debug)]
pub enum ClusterError {
    Read(String),
}
#[derive(Clone, Copy, Debug)]
pub enum IterDirection {
    Forward,
    Reverse,
}
pub type PartitionId = u16;
#[derive(Clone, Debug)]
pub struct StreamId(pub u8);
impl std::fmt::Display for StreamId {
    fn fmt(&self, f: &mut std::fmt::Formatter<'_>) -> std::fmt::Result {
        Ok(())
    }
}
#[derive(Debug)]
pub struct ReadErr;
impl std::fmt::Display for ReadErr {
    fn fmt(&self, f: &mut std::fmt::Formatter<'_>) -> std::fmt::Result {
        Ok(())
    }
}

static mut IN_STREAM: [bool; L] = [true; L]; // which log events belong to the stream being read
static mut P_REPLY: Option<(usize, [u64; L], bool)> = None; // (n events, their partition sequences, has_more)
static mut REPLIED_ERR: bool = false;

pub struct ReplySender<T>(PhantomData<T>);
pub trait Recordable {
    fn record(self);
}
fn record_events(events: &Vec<EventRecord>, has_more: bool) {
    let mut seqs = [0u64; L];
    let mut i = 0;
    while i < events.len() && i < L {
        seqs[i] = events[i].partition_sequence;
        i += 1;
    }
    unsafe { P_REPLY = Some((events.len(), seqs, has_more)); }
}
impl Recordable for Result<PartitionEvents, ClusterError> {
    fn record(self) {
        match &self {
            Ok(p) => record_events(&p.events, p.has_more),
            Err(_) => unsafe { REPLIED_ERR = true },
        }
        std::mem::forget(self);
    }
}
impl Recordable for Result<StreamEvents, ClusterError> {
    fn record(self) {
        match &self {
            Ok(p) => record_events(&p.events, p.has_more),
            Err(_) => unsafe { REPLIED_ERR = true },
        }
        std::mem::forget(self);
    }
}
impl<T: Recordable> ReplySender<T> {
    pub fn send(self, v: T) {
        v.record();
    }
}

mod tokio {
    pub fn spawn<F: std::future::Future<Output = ()>>(f: F) {
        kani::block_on(f);
    }
}

#[derive(Clone)]
pub struct Database;
pub struct MockIter {
    pos: usize,       // next log index to look at
    stream: bool,     // filter by IN_STREAM
}
impl Database {
    pub async fn read_partition(&self, _p: PartitionId, start: u64, _d: IterDirection) -> Result<MockIter, ReadErr> {
        Ok(MockIter { pos: if start as usize > L { L } else { start as usize }, stream: false })
    }
    pub async fn read_stream(&self, _p: PartitionId, _s: StreamId, start_version: u64, _d: IterDirection) -> Result<MockIter, ReadErr> {
        // position of the first stream event whose stream_version >= start_version
        let mut idx = 0;
        let mut ver = 0u64;
        unsafe {
            while idx < L {
                if IN_STREAM[idx] {
                    if ver >= start_version { break; }
                    ver += 1;
                }
                idx += 1;
            }
        }
        Ok(MockIter { pos: idx, stream: true })
    }
}
impl MockIter {
    pub async fn next_batch(&mut self, limit: usize) -> Result<Option<[[EventRecord; 1]; 1]>, ReadErr> {
        if limit == 0 {
            return Ok(None);
        }
        unsafe {
            while self.pos < L && self.stream && !IN_STREAM[self.pos] {
                self.pos += 1;
            }
            if self.pos >= L {
                return Ok(None);
            }
            let i = self.pos;
            self.pos += 1;
            let mut ver = 0u64;
            let mut j = 0;
            while j < i {
                if IN_STREAM[j] { ver += 1; }
                j += 1;
            }
            let ev = EventRecord { partition_sequence: i as u64, stream_version: ver, confirmation_count: 0 };
            // one batch = one commit = one event, as arrays (no heap, no drop glue)
            Ok(Some([[ev]]))
        }
    }
}

pub struct AtomicWatermark(u64);
impl AtomicWatermark {
    pub fn get(&self) -> u64 {
        self.0
    }
}
pub struct WmMap(Option<Arc<AtomicWatermark>>);
impl WmMap {
    pub fn get(&self, _p: &PartitionId) -> Option<&Arc<AtomicWatermark>> {
        self.0.as_ref()
    }
}
pub struct ClusterActor {
    database: Database,
    watermarks: WmMap,
}

impl ClusterActor {
// ---- verbatim slices of crates/sierradb-cluster/src/read.rs are inserted here
@SLICES@
}

fn setup(wm: u64) -> ClusterActor {
    unsafe {
        P_REPLY = None;
        REPLIED_ERR = false;
    }
    ClusterActor { database: Database, watermarks: WmMap(Some(Arc::new(AtomicWatermark(wm)))) }
}

fn check_reply(wm: u64, start_seq_lower_bound: u64) {
    unsafe {
        assert!(!REPLIED_ERR, "read failed");
        let Some((n, seqs, has_more)) = P_REPLY else { assert!(false, "no reply sent"); return; };
        assert!(n <= L);
        let mut i = 0;
        while i < L {
            if i < n {
                assert!(seqs[i] < wm, "an event at or beyond the confirmed watermark (not quorum-confirmed) was returned");
                assert!(seqs[i] >= start_seq_lower_bound, "an event before the requested start was returned");
                if i > 0 { assert!(seqs[i] > seqs[i - 1], "events out of order"); }
            }
            i += 1;
        }
    }
}

#[kani::proof]
#[kani::unwind(@UNW@)]
fn c07_partition_read_confirmed_prefix_only() {
    let wm: u64 = kani::any();
    kani::assume(wm <= L as u64);
    let start: u64 = kani::any();
    kani::assume(start <= L as u64 + 1);
    let end: Option<u64> = if kani::any() { None } else { let e: u64 = kani::any(); kani::assume(e <= L as u64 + 1); Some(e) };
    let count: u64 = kani::any();
    kani::assume(count <= L as u64 + 1);
    let mut a = setup(wm);
    a.handle_partition_read_locally(1, start, end, count, ReplySender(PhantomData));
    check_reply(wm, start);
    unsafe {
        let (n, seqs, has_more) = P_REPLY.unwrap();
        // completeness within the confirmed prefix: with an unbounded request everything confirmed from `start` is returned
        if end.is_none() && count > L as u64 && start < wm {
            assert!(n as u64 == wm - start, "confirmed events missing from an unbounded partition scan");
            assert!(!has_more, "has_more set although the confirmed prefix was exhausted");
        }
        // has_more must not hide existing confirmed events
        if n > 0 && !has_more {
            let last = seqs[n - 1];
            let cut_by_end = matches!(end, Some(e) if last >= e);
            if !cut_by_end { assert!(last + 1 >= wm || (n as u64) < count, "has_more false although confirmed events remain"); }
        }
        kani::cover!(n == 2 && wm == 2);
    }
    std::mem::forget(a);
}

#[kani::proof]
#[kani::unwind(@UNW@)]
fn c07_stream_read_confirmed_prefix_only() {
    let wm: u64 = kani::any();
    kani::assume(wm <= L as u64);
    unsafe {
        let mut i = 0;
        while i < L {
            IN_STREAM[i] = kani::any();
            i += 1;
        }
    }
    let start_version: u64 = kani::any();
    kani::assume(start_version <= L as u64);
    let end: Option<u64> = if kani::any() { None } else { let e: u64 = kani::any(); kani::assume(e <= L as u64 + 1); Some(e) };
    let count: u64 = kani::any();
    kani::assume(count <= L as u64 + 1);
    let mut a = setup(wm);
    a.handle_stream_read_locally(1, StreamId(0), start_version, end, count, ReplySender(PhantomData));
    check_reply(wm, 0);
    unsafe {
        let (n, seqs, _) = P_REPLY.unwrap();
        let mut i = 0;
        while i < L {
            if i < n { assert!(IN_STREAM[seqs[i] as usize], "an event of another stream was returned"); }
            i += 1;
        }
        kani::cover!(n >= 1 && wm >= 1);
    }
    std::mem::forget(a);
}

#[kani::proof]
#[kani::unwind(@UNW@)]
fn c07_vacuity_witness() {
    let mut a = setup(2);
    a.handle_partition_read_locally(1, 0, None, 5, ReplySender(PhantomData));
    unsafe { kani::assume(matches!(P_REPLY, Some((n, _, _)) if n >= 1)); }
    assert!(false, "vacuity witness");
}
