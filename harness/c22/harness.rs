// C22 (one kernel) — EMAPPEND's per-event stream version reconstruction. The statement block is a
// verbatim slice from the middle of EMAppend::handle_request; the cluster reply it consumes is a
// symbolic but CONSISTENT AppendResult: stream_versions[s] = version of the last event written to s.
use shimmap::HashMap;

#[derive(Clone, Copy, PartialEq, Eq, PartialOrd, Ord, Debug)]
pub struct StreamId(pub u8);
type Uuid = u128;
pub struct EventInfo {
    event_id: Uuid,
    stream_id: StreamId,
    stream_version: u64,
    timestamp: u64,
}
pub struct AppendResultM {
    pub stream_versions: HashMap<StreamId, u64>,
}

fn reconstruct(event_ids_timestamps_streams: Vec<(Uuid, u64, StreamId)>, result: AppendResultM) -> Vec<EventInfo> {
    // ---- verbatim from crates/sierradb-server/src/request/emappend.rs
@SLICE@
    // ----
    events
}

const N: usize = @N@;

#[kani::proof]
#[kani::unwind(@UNW@)]
fn c22_emappend_versions() {
    // N events over two streams; the store assigned versions start_s, start_s + 1, ... per stream in event order
    let which: [bool; N] = kani::any();
    let start: [u64; 2] = kani::any();
    let mut count = [0u64; 2];
    let mut input: Vec<(Uuid, u64, StreamId)> = Vec::with_capacity(N);
    let mut want = [0u64; N];
    let mut i = 0;
    while i < N {
        let s = which[i] as usize;
        kani::assume(start[s] <= u64::MAX - N as u64);
        want[i] = start[s] + count[s];
        count[s] += 1;
        input.push((i as u128, 0, StreamId(s as u8)));
        i += 1;
    }
    let mut sv = HashMap::new();
    let mut s = 0;
    while s < 2 {
        if count[s] > 0 { sv.insert(StreamId(s as u8), start[s] + count[s] - 1); }
        s += 1;
    }
    let out = reconstruct(input, AppendResultM { stream_versions: sv });
    assert!(out.len() == N, "one response entry per event");
    let mut i = 0;
    while i < N {
        assert!(out[i].event_id == i as u128, "response entries out of event order");
        assert!(out[i].stream_version == want[i], "reported stream version differs from the version the store assigned");
        i += 1;
    }
    kani::cover!(start[0] == 0 && count[0] == 1, "a new stream (first version 0)");
    kani::cover!(count[0] >= 2 && count[1] >= 1);
    std::mem::forget(out);
}

#[kani::proof]
#[kani::unwind(@UNW@)]
fn c22_vacuity_witness() {
    let mut sv = HashMap::new();
    sv.insert(StreamId(0), 5u64);
    let mut input = Vec::with_capacity(1);
    input.push((0u128, 0u64, StreamId(0)));
    let out = reconstruct(input, AppendResultM { stream_versions: sv });
    kani::assume(out.len() == 1 && out[0].stream_version == 5);
    assert!(false, "vacuity witness");
}
