// C18 — segment-log readers never serve stale or unflushed data.
//
// Oracle for every read: the real reader's answer must equal `spec_read` evaluated on the disk
// *as it is now* below the flushed offset *as it is now*; an Ok record must be byte-identical to
// the disk. The reader object (and its read-ahead cache) is long-lived across writer steps.
//
// Record *lengths* are shape parameters (concrete per harness instance, so that every copy loop in
// BufWriter / the file model has a concrete trip count); record *contents*, headers, the bytes
// beyond the flushed offset, hints and read offsets are symbolic.
pub mod c18 {
    use super::*;

    const SEG: usize = DISK_BYTES;

    fn any_bytes() -> [u8; MAXD] {
        kani::any()
    }

    fn check_read<const H: usize>(r: &mut Reader<H>, off: u64, hint: ReadHint, fl: &FlushedOffset) {
        let flushed = fl.load();
        let want = spec_read::<H>(off, flushed, fmodel::cheap_crc);
        let got = r.read_record(off, hint);
        let cls = classify(&got);
        assert!(cls == want, "read result differs from the record on disk below the flushed offset (stale or unflushed data served)");
        if let Ok(rec) = &got {
            assert!(off + rec.len as u64 <= flushed, "record extends beyond the flushed offset");
            assert!(record_matches_disk(rec, off), "returned bytes differ from the bytes on disk");
        }
        std::mem::forget(got);
    }

    /// arbitrary bytes in the not-yet-flushed region: the writer may be in the middle of a write(2)
    fn havoc_tail(from: u64) {
        let t: [u8; HAVOC] = kani::any();
        unsafe {
            let f = from as usize;
            let mut i = 0;
            while i < HAVOC {
                if f + i < SEG {
                    fmodel::DISK[f + i] = t[i];
                }
                i += 1;
            }
        }
    }

    fn hint(seq: bool) -> ReadHint {
        if seq { ReadHint::Sequential } else { ReadHint::Random }
    }

    /// reader used before later data was flushed, then reads the later data
    pub fn reuse_after_flush<const H: usize>(n1: usize, n2: usize, start: u64, seq: bool, havoc: bool) {
        let mut w = Writer::<H>::create("seg", SEG, start).unwrap();
        let fl = w.flushed_offset();
        let mut r = Reader::<H>::open("seg", Some(fl.clone())).unwrap();
        let d1 = any_bytes();
        let hdr: [u8; H] = kani::any();
        let (o1, l1) = w.append(&hdr, &d1[..n1]).unwrap();
        w.sync().unwrap();
        // bytes after the flushed offset are whatever a concurrent write(2) has put there so far (havoc), or still the
        // zeros of the preallocated file (no havoc: a stale answer is then a cheap TruncationMarker instead of a record
        // with a symbolic length, which keeps the harness decidable on a tree that HAS the defect)
        if havoc { havoc_tail(fl.load()); }
        check_read(&mut r, o1, ReadHint::Sequential, &fl);

        let d2 = any_bytes();
        let hdr2: [u8; H] = kani::any();
        let (o2, l2) = w.append(&hdr2, &d2[..n2]).unwrap();
        w.sync().unwrap();
        assert!(fl.load() == o2 + l2 as u64, "sync publishes the write offset");

        // the (single) potentially stale read comes last so that a stale answer cannot feed symbolic
        // lengths into further operations
        check_read(&mut r, o2, hint(seq), &fl);
        std::mem::forget(w);
        std::mem::forget(r);
    }

    /// never a byte at or beyond the flushed offset: unsynced appended data (buffered or in the page cache)
    pub fn unflushed_not_served<const H: usize>(n1: usize, n2: usize, start: u64, seq: bool) {
        let mut w = Writer::<H>::create("seg", SEG, start).unwrap();
        let fl = w.flushed_offset();
        let mut r = Reader::<H>::open("seg", Some(fl.clone())).unwrap();
        let d1 = any_bytes();
        let hdr: [u8; H] = kani::any();
        let (o1, l1) = w.append(&hdr, &d1[..n1]).unwrap();
        w.sync().unwrap();
        let d2 = any_bytes();
        let (o2, l2) = w.append(&hdr, &d2[..n2]).unwrap();
        let flushed_to_os: bool = kani::any();
        if flushed_to_os {
            w.flush_writer().unwrap(); // in the page cache, not yet published
        }
        assert!(fl.load() == o2, "flushed offset must not move before sync");
        let got = r.read_record(o2, hint(seq));
        assert!(got.is_err(), "read at the flushed offset must fail while the record there is unsynced");
        std::mem::forget(got);
        check_read(&mut r, o1, hint(seq), &fl);
        std::mem::forget(w);
        std::mem::forget(r);
    }

    /// truncation: reader cached records, writer truncates (set_len); nothing at the cut may be served
    pub fn truncate_then_read<const H: usize>(n1: usize, n2: usize, start: u64, seq: bool) {
        let mut w = Writer::<H>::create("seg", SEG, start).unwrap();
        let fl = w.flushed_offset();
        let mut r = Reader::<H>::open("seg", Some(fl.clone())).unwrap();
        let d1 = any_bytes();
        let hdr: [u8; H] = kani::any();
        let (o1, l1) = w.append(&hdr, &d1[..n1]).unwrap();
        let d2 = any_bytes();
        let (o2, l2) = w.append(&hdr, &d2[..n2]).unwrap();
        w.sync().unwrap();
        check_read(&mut r, o1, ReadHint::Sequential, &fl);
        check_read(&mut r, o2, ReadHint::Sequential, &fl);
        w.set_len(o2).unwrap();
        assert!(fl.load() == o2, "truncation lowers the flushed offset");
        check_read(&mut r, o2, hint(seq), &fl);
        check_read(&mut r, o1, hint(seq), &fl);
        std::mem::forget(w);
        std::mem::forget(r);
    }

    /// truncation followed by a different record at the same offset, read through the reader that cached the old one
    pub fn truncate_rewrite<const H: usize>(n1: usize, n2: usize, start: u64, seq: bool) {
        let mut w = Writer::<H>::create("seg", SEG, start).unwrap();
        let fl = w.flushed_offset();
        let mut r = Reader::<H>::open("seg", Some(fl.clone())).unwrap();
        let d1 = any_bytes();
        let hdr: [u8; H] = kani::any();
        let (o1, l1) = w.append(&hdr, &d1[..n1]).unwrap();
        let d2 = any_bytes();
        let (o2, l2) = w.append(&hdr, &d2[..n2]).unwrap();
        w.sync().unwrap();
        check_read(&mut r, o1, ReadHint::Sequential, &fl);
        check_read(&mut r, o2, ReadHint::Sequential, &fl);
        w.set_len(o2).unwrap();
        let d3 = any_bytes();
        let hdr3: [u8; H] = kani::any();
        let (o3, l3) = w.append(&hdr3, &d3[..n2]).unwrap();
        w.sync().unwrap();
        assert!(o3 == o2, "append after truncation continues at the truncation point");
        check_read(&mut r, o3, hint(seq), &fl);
        std::mem::forget(w);
        std::mem::forget(r);
    }

    /// header replacement through the same long-lived reader invalidates its cache
    pub fn replace_header_then_read(n1: usize, n2: usize, start: u64, seq: bool, second: bool) {
        let mut w = Writer::<1>::create("seg", SEG, start).unwrap();
        let fl = w.flushed_offset();
        let mut r = Reader::<1>::open("seg", Some(fl.clone())).unwrap();
        let d1 = any_bytes();
        let hdr: [u8; 1] = kani::any();
        let (o1, l1) = w.append(&hdr, &d1[..n1]).unwrap();
        let d2 = any_bytes();
        let (o2, l2) = w.append(&hdr, &d2[..n2]).unwrap();
        w.sync().unwrap();
        check_read(&mut r, o1, ReadHint::Sequential, &fl);
        let which: u64 = if second { o2 } else { o1 };
        let nh: [u8; 1] = kani::any();
        r.replace_header(which, nh).unwrap();
        let mut t = 0;
        while t < 2 {
            let off = if t == 0 { which } else if second { o1 } else { o2 };
            let got = r.read_record(off, hint(seq));
            match &got {
                Ok(rec) => {
                    assert!(record_matches_disk(rec, off), "stale bytes after header replacement");
                    if off == which {
                        assert!(rec.header[0] == nh[0], "replaced header not visible");
                    }
                }
                Err(_) => assert!(false, "record unreadable after header replacement"),
            }
            std::mem::forget(got);
            t += 1;
        }
        std::mem::forget(w);
        std::mem::forget(r);
    }

    /// iteration from any record boundary yields exactly the flushed records
    pub fn iterate_flushed<const H: usize>(n1: usize, n2: usize, start: u64, from_second: bool) {
        let mut w = Writer::<H>::create("seg", SEG, start).unwrap();
        let fl = w.flushed_offset();
        let mut r = Reader::<H>::open("seg", Some(fl.clone())).unwrap();
        let d1 = any_bytes();
        let hdr: [u8; H] = kani::any();
        let (o1, l1) = w.append(&hdr, &d1[..n1]).unwrap();
        let d2 = any_bytes();
        let (o2, l2) = w.append(&hdr, &d2[..n2]).unwrap();
        w.sync().unwrap();
        let (o3, l3) = w.append(&hdr, &d1[..n2]).unwrap(); // not synced
        w.flush_writer().unwrap();
        let begin = if from_second { o2 } else { o1 };
        let mut it = r.iter(begin);
        let mut count = 0u32;
        let mut expect = begin;
        let mut k = 0;
        while k < 4 {
            let res = it.next_record();
            let mut done = false;
            match &res {
                Ok(Some(rec)) => {
                    assert!(rec.offset == expect, "iteration skipped or repeated a record");
                    assert!(record_matches_disk(rec, rec.offset), "iteration returned bytes that are not on disk");
                    expect += rec.len as u64;
                    count += 1;
                }
                Ok(None) => done = true,
                Err(_) => { assert!(false, "iteration failed on flushed records"); }
            }
            std::mem::forget(res);
            // the iterator's own position must follow the records it returned; past a wrong advance nothing is explored
            // (the next read would start inside a record, at bytes that are symbolic)
            assert!(it.verif_offset() == expect, "iterator advanced to an offset that is not the next record boundary");
            kani::assume(it.verif_offset() == expect);
            if done { break; }
            k += 1;
        }
        assert!(expect == o3, "iteration did not stop exactly at the flushed offset");
        assert!(count == if from_second { 1 } else { 2 }, "iteration did not yield exactly the flushed records");
        std::mem::forget(w);
        std::mem::forget(r);
    }

    /// lighter iteration: one flushed record, one unsynced record behind it
    pub fn iterate_light<const H: usize>(n1: usize, n2: usize, start: u64, from_second: bool) {
        let mut w = Writer::<H>::create("seg", SEG, start).unwrap();
        let fl = w.flushed_offset();
        let mut r = Reader::<H>::open("seg", Some(fl.clone())).unwrap();
        let d1 = any_bytes();
        let hdr: [u8; H] = kani::any();
        let (o1, l1) = w.append(&hdr, &d1[..n1]).unwrap();
        w.sync().unwrap();
        let (o2, l2) = w.append(&hdr, &d1[..n2]).unwrap(); // not synced
        w.flush_writer().unwrap();
        let begin = if from_second { o2 } else { o1 };
        let mut it = r.iter(begin);
        let mut count = 0u32;
        let mut expect = begin;
        let mut k = 0;
        while k < 2 {
            let res = it.next_record();
            let mut done = false;
            match &res {
                Ok(Some(rec)) => {
                    assert!(rec.offset == expect, "iteration skipped or repeated a record");
                    assert!(record_matches_disk(rec, rec.offset), "iteration returned bytes that are not on disk");
                    expect += rec.len as u64;
                    count += 1;
                }
                Ok(None) => done = true,
                Err(_) => { assert!(false, "iteration failed on flushed records"); }
            }
            std::mem::forget(res);
            // the iterator's own position must follow the records it returned; past a wrong advance nothing is explored
            // (the next read would start inside a record, at bytes that are symbolic)
            assert!(it.verif_offset() == expect, "iterator advanced to an offset that is not the next record boundary");
            kani::assume(it.verif_offset() == expect);
            if done { break; }
            k += 1;
        }
        assert!(expect == o2, "iteration did not stop exactly at the flushed offset");
        assert!(count == if from_second { 0 } else { 1 }, "iteration did not yield exactly the flushed records");
        std::mem::forget(w);
        std::mem::forget(r);
    }

@INSTANCES@

    #[kani::proof]
    #[kani::unwind(4)]
    fn c18_vacuity_witness() {
        // the model itself: a write followed by a read_at returns the written bytes
        let mut f = fmodel::fake_file();
        fmodel::write(&mut f, &[7u8, 9u8]).unwrap();
        let mut b = [0u8; 2];
        fmodel::read_at(&f, &mut b, 0).unwrap();
        std::mem::forget(f);
        kani::assume(b[0] == 7 && b[1] == 9);
        assert!(false, "vacuity witness");
    }
}
