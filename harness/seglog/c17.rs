// C17 — segment-log records round-trip and corruption is always detected.
//
// The checksum is the REAL crc32fast (table-driven baseline; the SIMD dispatch needs cpuid).
// Record lengths / which read path are shape parameters (concrete per instance); contents, the
// flipped bit / burst position and pattern, and the truncation point are symbolic.
pub mod c17 {
    use super::*;
    use crate::parse::parse_record;

    const SEG: usize = DISK_BYTES;

    fn any_bytes() -> [u8; MAXD] {
        kani::any()
    }

    // path: 0 = Reader Random hint, 1 = Reader Sequential hint, 2 = Iter::next_record, 3 = parse_record
    fn read_is_ok<const H: usize>(path: u8, fl: &FlushedOffset, off: u64) -> bool {
        match path {
            0 | 1 => {
                let mut r = Reader::<H>::open("seg", Some(fl.clone())).unwrap();
                let got = r.read_record(off, if path == 1 { ReadHint::Sequential } else { ReadHint::Random });
                let ok = got.is_ok();
                std::mem::forget(got);
                std::mem::forget(r);
                ok
            }
            2 => {
                let mut r = Reader::<H>::open("seg", Some(fl.clone())).unwrap();
                let mut it = r.iter(off);
                let got = it.next_record();
                let ok = matches!(&got, Ok(Some(_)));
                std::mem::forget(got);
                std::mem::forget(r);
                ok
            }
            _ => {
                let vis = fl.load() as usize;
                let got = unsafe { parse_record::<H>(&fmodel::DISK[..vis], off as usize) };
                let ok = got.is_ok();
                std::mem::forget(got);
                ok
            }
        }
    }

    fn expect_same<const H: usize>(hdr: &[u8], data: &[u8], h: &[u8; H], d: &[u8]) {
        assert!(hdr.len() == H && data.len() == d.len(), "round trip changed the record shape");
        let mut i = 0;
        while i < H {
            assert!(hdr[i] == h[i], "round trip changed the header");
            i += 1;
        }
        let mut j = 0;
        while j < d.len() {
            assert!(data[j] == d[j], "round trip changed the data");
            j += 1;
        }
    }

    /// every record appended comes back byte-identical through the given read path
    pub fn roundtrip<const H: usize>(n: usize, start: u64, path: u8) {
        let mut w = Writer::<H>::create("seg", SEG, start).unwrap();
        let fl = w.flushed_offset();
        let d = any_bytes();
        let h: [u8; H] = kani::any();
        let (o, l) = w.append(&h, &d[..n]).unwrap();
        assert!(l == RECORD_HEAD_SIZE + H + n);
        w.sync().unwrap();
        let mut r = Reader::<H>::open("seg", Some(fl.clone())).unwrap();
        if path < 2 {
            let got = r.read_record(o, if path == 1 { ReadHint::Sequential } else { ReadHint::Random });
            match &got {
                Ok(rec) => {
                    expect_same::<H>(&rec.header, &rec.data, &h, &d[..n]);
                    assert!(rec.offset == o && rec.len == l, "record offset/len differ");
                    assert!(rec.compressed_data.is_none());
                }
                Err(_) => assert!(false, "intact record rejected"),
            }
            std::mem::forget(got);
        } else if path == 2 {
            let mut it = r.iter(o);
            let got = it.next_record();
            match &got {
                Ok(Some(rec)) => expect_same::<H>(&rec.header, &rec.data, &h, &d[..n]),
                _ => assert!(false, "iteration did not yield the intact record"),
            }
            std::mem::forget(got);
            let end = it.next_record();
            assert!(matches!(&end, Ok(None)), "iteration must end after the last record");
            std::mem::forget(end);
        } else {
            let vis = fl.load() as usize;
            let got = unsafe { parse_record::<H>(&fmodel::DISK[..vis], o as usize) };
            match &got {
                Ok((ph, pd, used)) => {
                    expect_same::<H>(&ph[..], &pd[..], &h, &d[..n]);
                    assert!(*used == l, "parse_record consumed a different length");
                }
                Err(_) => assert!(false, "parse_record rejected an intact record"),
            }
            std::mem::forget(got);
        }
        std::mem::forget(w);
        std::mem::forget(r);
    }

    /// XOR `mask[i]` into record byte i for i in lo..hi (concrete loop: untouched bytes keep their constants)
    fn corrupt(o: u64, lo: usize, hi: usize, at: usize, v: u64) {
        unsafe {
            let mut i = lo;
            while i < hi {
                let j = i.wrapping_sub(at);
                let m: u8 = if j < 5 { (v >> (8 * j)) as u8 } else { 0 };
                fmodel::DISK[o as usize + i] ^= m;
                i += 1;
            }
        }
    }

    /// a single flipped bit anywhere in crc | header | data is detected by every read path
    pub fn bitflip_body<const H: usize>(n: usize, start: u64, path: u8) {
        let mut w = Writer::<H>::create("seg", SEG, start).unwrap();
        let fl = w.flushed_offset();
        let d = any_bytes();
        let h: [u8; H] = kani::any();
        let (o, l) = w.append(&h, &d[..n]).unwrap();
        w.sync().unwrap();
        let bit: usize = kani::any();
        kani::assume(bit >= 32 && bit < 8 * l);
        corrupt(o, 4, l, bit / 8, 1u64 << (bit % 8));
        assert!(!read_is_ok::<H>(path, &fl, o), "record with one flipped bit (crc/header/data) returned as valid");
        kani::cover!(bit >= 32);
        std::mem::forget(w);
    }

    /// a single flipped bit in the 4-byte length field: never valid data, never a panic
    pub fn bitflip_len<const H: usize>(n: usize, start: u64, path: u8, lo: usize, hi: usize) {
        let mut w = Writer::<H>::create("seg", SEG, start).unwrap();
        let fl = w.flushed_offset();
        let d = any_bytes();
        let h: [u8; H] = kani::any();
        let (o, l) = w.append(&h, &d[..n]).unwrap();
        // a second record follows, so that a lengthened record may still lie below the flushed offset
        let (o2, l2) = w.append(&h, &d[..n]).unwrap();
        w.sync().unwrap();
        // a one-element range makes the flipped bit a shape parameter (concrete corrupted length: needed for
        // the Reader paths, whose buffer loops would otherwise be unrolled for a symbolic length)
        let bit: usize = if hi == lo + 1 { lo } else { kani::any() };
        kani::assume(bit >= lo && bit < hi);
        corrupt(o, 0, 4, bit / 8, 1u64 << (bit % 8));
        assert!(!read_is_ok::<H>(path, &fl, o), "record with one flipped length bit returned as valid");
        std::mem::forget(w);
    }

    /// a burst error of up to 32 bits inside crc | header | data is detected
    pub fn burst_body<const H: usize>(n: usize, start: u64, path: u8, straddle: bool) {
        let mut w = Writer::<H>::create("seg", SEG, start).unwrap();
        let fl = w.flushed_offset();
        let d = any_bytes();
        let h: [u8; H] = kani::any();
        let (o, l) = w.append(&h, &d[..n]).unwrap();
        w.sync().unwrap();
        let s: usize = kani::any(); // first bit of the burst
        let pat: u32 = kani::any(); // which of the following 32 bits flip
        kani::assume(s >= 32 && s < 8 * l);
        kani::assume(pat & 1 == 1); // the burst starts at s
        // straddle = the burst starts inside the stored CRC field (bits 32..64) - it may reach into the payload;
        // otherwise it lies entirely inside header|data, where CRC-32 guarantees detection
        if straddle { kani::assume(s < 64); } else { kani::assume(s >= 64); }
        // bits beyond the record end fall outside it (they hit whatever follows) and are dropped
        let v = (pat as u64) << (s % 8);
        corrupt(o, 4, l, s / 8, v);
        assert!(!read_is_ok::<H>(path, &fl, o), "record with a <=32-bit burst error returned as valid");
        kani::cover!(pat.count_ones() > 8);
        std::mem::forget(w);
    }

    /// a record of which only a strict prefix is visible is never returned
    pub fn truncated<const H: usize>(n: usize, start: u64, path: u8, cut: i64) {
        let mut w = Writer::<H>::create("seg", SEG, start).unwrap();
        let fl = w.flushed_offset();
        let d = any_bytes();
        let h: [u8; H] = kani::any();
        let (o, l) = w.append(&h, &d[..n]).unwrap();
        w.sync().unwrap();
        // cut >= 0: the visible length is a shape parameter (o + cut); cut < 0: symbolic
        let vis: u64 = if cut >= 0 { o + cut as u64 } else { kani::any() };
        kani::assume(vis >= o && vis < o + l as u64);
        fl.set(vis);
        assert!(!read_is_ok::<H>(path, &fl, o), "truncated record returned as valid");
        // and cutting the file itself (zeros after the cut, as after a crash into preallocated space)
        let mut changed = false;
        unsafe {
            let mut i = 0;
            while i < l {
                if o + i as u64 >= vis {
                    if fmodel::DISK[o as usize + i] != 0 { changed = true; }
                    fmodel::DISK[o as usize + i] = 0;
                }
                i += 1;
            }
        }
        fl.set(o + l as u64);
        // (if every lost byte was already zero the record is intact and may of course be returned)
        if changed {
            assert!(!read_is_ok::<H>(path, &fl, o), "record whose tail was lost (zeros) returned as valid");
        }
        kani::cover!(cut >= 0 || vis > o + RECORD_HEAD_SIZE as u64);
        std::mem::forget(w);
    }

@INSTANCES@

    #[kani::proof]
    #[kani::unwind(4)]
    fn c17_vacuity_witness() {
        let mut f = fmodel::fake_file();
        fmodel::write(&mut f, &[7u8, 9u8]).unwrap();
        std::mem::forget(f);
        unsafe { kani::assume(fmodel::DISK[1] == 9); }
        assert!(false, "vacuity witness");
    }
}
