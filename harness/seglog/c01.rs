// C01-K1 — the physical position of every appended record equals the offset `append` returned,
// across rollbacks (set_len after a half-written transaction), flushes and syncs; after `sync`
// everything below the flushed offset is on the (modelled) disk and has been followed by fsync.
//
// Shape parameters (concrete): record data lengths and the op script. Symbolic: all contents.
pub mod c01 {
    use super::*;

    const SEG: usize = DISK_BYTES;

    fn any_bytes() -> [u8; MAXD] {
        kani::any()
    }

    /// a fresh reader (no cache history) must find exactly the record with `hdr`/`data` at `off`
    fn expect_record<const H: usize>(fl: &FlushedOffset, off: u64, hdr: &[u8; H], data: &[u8]) {
        let mut r = Reader::<H>::open("seg", Some(fl.clone())).unwrap();
        let got = r.read_record(off, ReadHint::Random);
        match &got {
            Ok(rec) => {
                assert!(rec.header.len() == H && rec.data.len() == data.len(), "record at its returned offset has a different shape");
                let mut i = 0;
                while i < H {
                    assert!(rec.header[i] == hdr[i], "record header differs from what was appended");
                    i += 1;
                }
                let mut j = 0;
                while j < data.len() {
                    assert!(rec.data[j] == data[j], "record data differs from what was appended");
                    j += 1;
                }
            }
            Err(_) => assert!(false, "acknowledged (synced) record is not readable at the offset append() returned"),
        }
        std::mem::forget(got);
        std::mem::forget(r);
    }

    /// called only where the BufWriter is known to be empty (right after sync / set_len / flush_writer):
    /// the file cursor must then sit exactly at the logical write offset
    fn physical_eq_logical<const H: usize>(w: &Writer<H>) {
        unsafe {
            assert!(fmodel::CURSOR == w.write_offset(),
                    "file cursor != logical write offset after a flush (the next record would land elsewhere)");
        }
    }

    /// A B | rollback to B's start | C | sync  -- the exact shape of handle_append_events' error path
    pub fn rollback_then_append<const H: usize>(n1: usize, n2: usize, n3: usize, start: u64, sync_before: bool, rollback_two: bool) {
        let mut w = Writer::<H>::create("seg", SEG, start).unwrap();
        let fl = w.flushed_offset();
        let (d1, d2, d3) = (any_bytes(), any_bytes(), any_bytes());
        let (h1, h2, h3): ([u8; H], [u8; H], [u8; H]) = (kani::any(), kani::any(), kani::any());
        let (o1, l1) = w.append(&h1, &d1[..n1]).unwrap();
        if sync_before {
            w.sync().unwrap();
            physical_eq_logical(&w);
        }
        // a transaction of one or two records is half written, then rolled back
        let (o2, l2) = w.append(&h2, &d2[..n2]).unwrap();
        if rollback_two {
            w.append(&h3, &d3[..n3]).unwrap();
        }
        w.set_len(o2).unwrap();
        assert!(w.write_offset() == o2, "set_len moves the logical write offset");
        physical_eq_logical(&w);
        // the next (successful) append
        let (o3, l3) = w.append(&h3, &d3[..n3]).unwrap();
        assert!(o3 == o2, "append after rollback is assigned the rollback offset");
        w.sync().unwrap();
        physical_eq_logical(&w);
        unsafe { assert!(!fmodel::UNSYNCED, "sync returned before the data was followed by fsync"); }
        assert!(fl.load() == o3 + l3 as u64, "flushed offset covers the acknowledged append");
        expect_record::<H>(&fl, o1, &h1, &d1[..n1]);
        expect_record::<H>(&fl, o3, &h3, &d3[..n3]);
        std::mem::forget(w);
    }

    /// plain sequence: A, B, flush, C, sync — every record at its returned offset, contiguous
    pub fn append_sequence<const H: usize>(n1: usize, n2: usize, n3: usize, start: u64) {
        let mut w = Writer::<H>::create("seg", SEG, start).unwrap();
        let fl = w.flushed_offset();
        let (d1, d2, d3) = (any_bytes(), any_bytes(), any_bytes());
        let (h1, h2, h3): ([u8; H], [u8; H], [u8; H]) = (kani::any(), kani::any(), kani::any());
        let (o1, l1) = w.append(&h1, &d1[..n1]).unwrap();
        assert!(o1 == start && l1 == RECORD_HEAD_SIZE + H + n1);
        let (o2, l2) = w.append(&h2, &d2[..n2]).unwrap();
        assert!(o2 == o1 + l1 as u64, "records are contiguous");
        w.flush_writer().unwrap();
        physical_eq_logical(&w);
        assert!(fl.load() == start, "flush without sync publishes nothing");
        let (o3, l3) = w.append(&h3, &d3[..n3]).unwrap();
        w.sync().unwrap();
        physical_eq_logical(&w);
        unsafe { assert!(!fmodel::UNSYNCED, "sync returned before the data was followed by fsync"); }
        assert!(fl.load() == o3 + l3 as u64);
        expect_record::<H>(&fl, o1, &h1, &d1[..n1]);
        expect_record::<H>(&fl, o2, &h2, &d2[..n2]);
        expect_record::<H>(&fl, o3, &h3, &d3[..n3]);
        std::mem::forget(w);
    }

    /// a segment-full append changes nothing and the next fitting append still lands correctly
    pub fn segment_full_is_clean<const H: usize>(n1: usize, start: u64) {
        let mut w = Writer::<H>::create("seg", SEG, start).unwrap();
        let fl = w.flushed_offset();
        let d1 = any_bytes();
        let h1: [u8; H] = kani::any();
        let (o1, l1) = w.append(&h1, &d1[..n1]).unwrap();
        // too large for what is left
        let big = [0u8; DISK_BYTES];
        let res = w.append(&h1, &big[..]);
        assert!(matches!(res, Err(WriteError::SegmentFull { .. })), "oversized append must report SegmentFull");
        std::mem::forget(res);
        assert!(w.write_offset() == o1 + l1 as u64, "failed append moved the write offset");
        let (o2, l2) = w.append(&h1, &d1[..n1]).unwrap();
        w.sync().unwrap();
        expect_record::<H>(&fl, o1, &h1, &d1[..n1]);
        expect_record::<H>(&fl, o2, &h1, &d1[..n1]);
        std::mem::forget(w);
    }

@INSTANCES@

    #[kani::proof]
    #[kani::unwind(4)]
    fn c01_vacuity_witness() {
        let mut f = fmodel::fake_file();
        fmodel::write(&mut f, &[7u8, 9u8]).unwrap();
        std::mem::forget(f);
        unsafe { kani::assume(fmodel::CURSOR == 2 && fmodel::UNSYNCED); }
        assert!(false, "vacuity witness");
    }
}
