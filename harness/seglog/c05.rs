// C05-K1 (and the last clause of C17) — after a crash that keeps only a prefix of the bytes written
// since the last fsync, reopening the segment succeeds and the writer resumes right after the last
// intact record; a following append lands there and everything reads back.
//
// Pre-crash log: up to three records (lengths are shape parameters, contents symbolic), the first
// `synced` of them fsynced. Crash: the modelled disk keeps bytes [0, cut) and zeros beyond (the
// segment is preallocated), `cut` SYMBOLIC anywhere between the synced length and the end of the
// written bytes - every byte boundary, inside records included (one harness instance per cut).
pub mod c05 {
    use super::*;

    const SEG: usize = DISK_BYTES;

    fn any_bytes() -> [u8; MAXD] {
        kani::any()
    }

    pub fn crash_reopen<const H: usize>(n1: usize, n2: usize, n3: usize, start: u64, synced: usize, cut: u64) {
        let mut w = Writer::<H>::create("seg", SEG, start).unwrap();
        let (d1, d2, d3) = (any_bytes(), any_bytes(), any_bytes());
        let (h1, h2, h3): ([u8; H], [u8; H], [u8; H]) = (kani::any(), kani::any(), kani::any());
        let (o1, l1) = w.append(&h1, &d1[..n1]).unwrap();
        if synced == 1 { w.sync().unwrap(); }
        let (o2, l2) = w.append(&h2, &d2[..n2]).unwrap();
        if synced == 2 { w.sync().unwrap(); }
        let (o3, l3) = w.append(&h3, &d3[..n3]).unwrap();
        w.flush_writer().unwrap(); // everything reached write(2); only part of it is durable
        let end = o3 + l3 as u64;
        let durable = if synced == 0 { start } else if synced == 1 { o2 } else { o3 };
        std::mem::forget(w);

        // ---- crash: keep [0, cut), zeros after
        // the cut is a shape parameter (every byte boundary is instantiated in the thorough tier): with a symbolic cut
        // every length the recovery scan reads would be symbolic and the buffer loops are unrolled to the bound
        assert!(cut >= durable && cut <= end, "instance parameters: cut outside the unsynced tail");
        unsafe {
            let mut i = 0;
            while i < SEG {
                if (i as u64) >= cut { fmodel::DISK[i] = 0; }
                i += 1;
            }
            fmodel::CURSOR = 0;
        }
        // the longest prefix of whole records below the cut
        let want = if cut >= end { end } else if cut >= o3 { o3 } else if cut >= o2 { o2 } else { o1 };

        // ---- reopen
        let res = Writer::<H>::open("seg", SEG, start);
        let mut w2 = match res {
            Ok(w2) => w2,
            Err(_) => { assert!(false, "reopening the segment after a crash failed"); return; }
        };
        let resumed = w2.write_offset();
        assert!(resumed >= durable, "recovery dropped a record that had been fsynced (acknowledged)");
        // a torn record whose surviving bytes happen to form a valid shorter record would be a CRC collision (C17);
        // with the cheap checksum used here that cannot be excluded, so only the two sound bounds are asserted
        assert!(resumed <= want || resumed == want, "recovery resumed beyond the last intact record");
        assert!(resumed == want, "recovery did not resume right after the last intact record");
        assert!(w2.flushed_offset().load() == resumed, "flushed offset after recovery differs from the resume point");

        // (that the next append then lands exactly at `resumed` and reads back is C01-K1's claim for a writer at any
        // offset; continuing here would feed the data-dependent resume offset into every later buffer index)
        kani::cover!(resumed == want, "recovered");
        std::mem::forget(w2);
    }

@INSTANCES@

    #[kani::proof]
    #[kani::unwind(4)]
    fn c05_vacuity_witness() {
        let mut f = fmodel::fake_file();
        fmodel::write(&mut f, &[7u8, 9u8]).unwrap();
        std::mem::forget(f);
        unsafe { kani::assume(fmodel::DISK[1] == 9); }
        assert!(false, "vacuity witness");
    }
}
