// File model shared by the seglog harnesses (included into `crate::verif`).
//
// One regular file, preallocated to DISK_SIZE zero bytes (what fallocate leaves).
// POSIX semantics assumed: write(2) advances the cursor, pread/pwrite do not, reads past
// EOF return 0. Short writes and I/O errors are NOT modelled ("healthy disk").
// Every std::fs::File in a harness aliases this one file.
pub mod fmodel {
    use std::fs::File;
    use std::io::{self, SeekFrom};
    use std::mem::ManuallyDrop;

    pub const DISK_SIZE: usize = super::DISK_BYTES;
    pub static mut DISK: [u8; DISK_SIZE] = [0; DISK_SIZE];
    pub static mut CURSOR: u64 = 0;
    /// true while some written byte has not been followed by sync_data
    pub static mut UNSYNCED: bool = false;
    pub static mut SYNC_CALLS: u32 = 0;
    /// highest byte offset ever written (exclusive), for crash cuts
    pub static mut HIGH_WATER: u64 = 0;

    pub fn fake_file() -> File {
        use std::os::fd::FromRawFd;
        // never closed (callers mem::forget their owners), never reaches a syscall (all methods stubbed)
        unsafe { File::from_raw_fd(3) }
    }

    /// OpenOptions::open: every path names the one modelled file (creation flags are not modelled)
    pub fn open<P: AsRef<std::path::Path>>(_o: &std::fs::OpenOptions, _path: P) -> io::Result<File> {
        Ok(fake_file())
    }

    pub fn file_len(_f: &File) -> u64 {
        DISK_SIZE as u64
    }

    pub fn write(_f: &mut File, buf: &[u8]) -> io::Result<usize> {
        unsafe {
            let c = CURSOR as usize;
            assert!(c + buf.len() <= DISK_SIZE, "write beyond the preallocated segment");
            // element-wise with (usually) concrete trip count and indices: keeps CBMC's per-element
            // constant propagation alive (a memcpy would make every byte read back "symbolic")
            let mut i = 0;
            while i < buf.len() {
                DISK[c + i] = buf[i];
                i += 1;
            }
            CURSOR += buf.len() as u64;
            if buf.len() > 0 {
                UNSYNCED = true;
                if CURSOR > HIGH_WATER { HIGH_WATER = CURSOR; }
            }
        }
        Ok(buf.len())
    }

    pub fn flush(_f: &mut File) -> io::Result<()> {
        Ok(())
    }

    pub fn seek(_f: &mut File, pos: SeekFrom) -> io::Result<u64> {
        unsafe {
            match pos {
                SeekFrom::Start(p) => CURSOR = p,
                SeekFrom::Current(d) => CURSOR = (CURSOR as i64 + d) as u64,
                SeekFrom::End(d) => CURSOR = (DISK_SIZE as i64 + d) as u64,
            }
            Ok(CURSOR)
        }
    }

    pub fn read_at(_f: &File, buf: &mut [u8], offset: u64) -> io::Result<usize> {
        unsafe {
            if offset >= DISK_SIZE as u64 {
                return Ok(0);
            }
            let o = offset as usize;
            let avail = DISK_SIZE - o;
            let n = if buf.len() < avail { buf.len() } else { avail };
            let mut i = 0;
            while i < n {
                buf[i] = DISK[o + i];
                i += 1;
            }
            Ok(n)
        }
    }

    pub fn write_at(_f: &File, buf: &[u8], offset: u64) -> io::Result<usize> {
        unsafe {
            let o = offset as usize;
            assert!(o + buf.len() <= DISK_SIZE, "pwrite beyond the preallocated segment");
            let mut i = 0;
            while i < buf.len() {
                DISK[o + i] = buf[i];
                i += 1;
            }
            if buf.len() > 0 {
                UNSYNCED = true;
                let e = offset + buf.len() as u64;
                if e > HIGH_WATER { HIGH_WATER = e; }
            }
        }
        Ok(buf.len())
    }

    pub fn sync_data(_f: &File) -> io::Result<()> {
        unsafe {
            UNSYNCED = false;
            SYNC_CALLS += 1;
        }
        Ok(())
    }

    /// cheap stand-in for CRC32C where the checksum is not the subject of the harness: a GF(2)-linear
    /// rotate/xor fold over len|header|data (trivial for the SAT solver; NOT collision resistant - harnesses
    /// that use it never rely on detection of corruption, and never yields 0 together with a zero length)
    pub fn cheap_crc(len_bytes: &[u8; 4], header: &[u8], data: &[u8]) -> u32 {
        let mut acc: u32 = 0x9e37_79b9;
        for b in len_bytes.iter() { acc = acc.rotate_left(3) ^ (*b as u32); }
        for b in header.iter() { acc = acc.rotate_left(3) ^ (*b as u32) ^ 0x100; }
        for b in data.iter() { acc = acc.rotate_left(3) ^ (*b as u32) ^ 0x200; }
        acc
    }

    /// constant stand-in: every record "checks"; used only where the control flow must stay concrete (iteration), so that
    /// the iterator's offset arithmetic is decided with symbolic contents but no checksum case split
    pub fn const_crc(_len_bytes: &[u8; 4], _header: &[u8], _data: &[u8]) -> u32 {
        0x5a5a_a5a5
    }

    /// crc32fast without the cpuid dispatch (the SIMD path is not encodable): the table-driven baseline
    pub fn baseline_hasher() -> crc32fast::Hasher {
        crc32fast::Hasher::internal_new_baseline(0, 0)
    }

    pub fn noop() {}
}

/// Harness with the file model stubbed in. `crc` is either `real` (crc32fast baseline tables) or `cheap`.
macro_rules! fs_harness {
    (real, $name:ident, $unwind:literal, $body:block) => {
        #[kani::proof]
        #[kani::unwind($unwind)]
        #[kani::stub(<std::fs::File as std::io::Write>::write, fmodel::write)]
        #[kani::stub(<std::fs::File as std::io::Write>::flush, fmodel::flush)]
        #[kani::stub(<std::fs::File as std::io::Seek>::seek, fmodel::seek)]
        #[kani::stub(<std::fs::File as std::os::unix::fs::FileExt>::read_at, fmodel::read_at)]
        #[kani::stub(<std::fs::File as std::os::unix::fs::FileExt>::write_at, fmodel::write_at)]
        #[kani::stub(std::fs::File::sync_data, fmodel::sync_data)]
        #[kani::stub(std::fs::OpenOptions::open, fmodel::open)]
        #[kani::stub(crc32fast::Hasher::new, fmodel::baseline_hasher)]
        fn $name() $body
    };
    (cheap, $name:ident, $unwind:literal, $body:block) => {
        #[kani::proof]
        #[kani::unwind($unwind)]
        #[kani::stub(<std::fs::File as std::io::Write>::write, fmodel::write)]
        #[kani::stub(<std::fs::File as std::io::Write>::flush, fmodel::flush)]
        #[kani::stub(<std::fs::File as std::io::Seek>::seek, fmodel::seek)]
        #[kani::stub(<std::fs::File as std::os::unix::fs::FileExt>::read_at, fmodel::read_at)]
        #[kani::stub(<std::fs::File as std::os::unix::fs::FileExt>::write_at, fmodel::write_at)]
        #[kani::stub(std::fs::File::sync_data, fmodel::sync_data)]
        #[kani::stub(std::fs::OpenOptions::open, fmodel::open)]
        #[kani::stub(crate::calculate_crc32c, fmodel::cheap_crc)]
        fn $name() $body
    };
    (konst, $name:ident, $unwind:literal, $body:block) => {
        #[kani::proof]
        #[kani::unwind($unwind)]
        #[kani::stub(<std::fs::File as std::io::Write>::write, fmodel::write)]
        #[kani::stub(<std::fs::File as std::io::Write>::flush, fmodel::flush)]
        #[kani::stub(<std::fs::File as std::io::Seek>::seek, fmodel::seek)]
        #[kani::stub(<std::fs::File as std::os::unix::fs::FileExt>::read_at, fmodel::read_at)]
        #[kani::stub(<std::fs::File as std::os::unix::fs::FileExt>::write_at, fmodel::write_at)]
        #[kani::stub(std::fs::File::sync_data, fmodel::sync_data)]
        #[kani::stub(std::fs::OpenOptions::open, fmodel::open)]
        #[kani::stub(crate::calculate_crc32c, fmodel::const_crc)]
        fn $name() $body
    };
}

use crate::read::{ReadError, ReadHint, Reader, Record};
use crate::write::{WriteError, Writer};
use crate::{FlushedOffset, RECORD_HEAD_SIZE, COMPRESSION_FLAG, LENGTH_MASK};

/// Specification-level read of one record straight from the modelled disk: what a correct reader
/// must return at `offset` when `flushed` bytes are published. Written from the documented record
/// format (len | crc | header | data), not from the reader's code.
#[derive(Clone, Copy, PartialEq, Eq, Debug)]
pub enum Spec {
    OutOfBounds,
    Truncation,
    Crc,
    Ok { payload_len: usize },
}

pub fn spec_read<const H: usize>(offset: u64, flushed: u64, crc_of: fn(&[u8; 4], &[u8], &[u8]) -> u32) -> Spec {
    unsafe {
        if offset + RECORD_HEAD_SIZE as u64 > flushed {
            return Spec::OutOfBounds;
        }
        let o = offset as usize;
        let mut allzero = true;
        let mut i = 0;
        while i < RECORD_HEAD_SIZE {
            if fmodel::DISK[o + i] != 0 { allzero = false; }
            i += 1;
        }
        if allzero {
            return Spec::Truncation;
        }
        let lb = [fmodel::DISK[o], fmodel::DISK[o + 1], fmodel::DISK[o + 2], fmodel::DISK[o + 3]];
        let lw = u32::from_le_bytes(lb);
        let payload_len = (lw & LENGTH_MASK) as usize;
        let crc = u32::from_le_bytes([fmodel::DISK[o + 4], fmodel::DISK[o + 5], fmodel::DISK[o + 6], fmodel::DISK[o + 7]]);
        if offset + (RECORD_HEAD_SIZE + payload_len) as u64 > flushed {
            return Spec::OutOfBounds;
        }
        if payload_len < H {
            // a record shorter than its fixed header cannot be valid
            return Spec::Crc;
        }
        let p = o + RECORD_HEAD_SIZE;
        let c = crc_of(&lb, &fmodel::DISK[p..p + H], &fmodel::DISK[p + H..p + payload_len]);
        if c != crc {
            return Spec::Crc;
        }
        Spec::Ok { payload_len }
    }
}

pub fn classify<const H: usize>(r: &Result<Record<'_, H>, ReadError>) -> Spec {
    match r {
        Ok(rec) => Spec::Ok { payload_len: rec.len - RECORD_HEAD_SIZE },
        Err(ReadError::OutOfBounds { .. }) => Spec::OutOfBounds,
        Err(ReadError::TruncationMarker { .. }) => Spec::Truncation,
        Err(ReadError::Crc32cMismatch { .. }) => Spec::Crc,
        Err(_) => Spec::Crc, // Io / other: treated as "rejected"
    }
}

/// the record returned equals the bytes on the modelled disk at `offset`
pub fn record_matches_disk<const H: usize>(rec: &Record<'_, H>, offset: u64) -> bool {
    unsafe {
        let p = offset as usize + RECORD_HEAD_SIZE;
        let payload_len = rec.len - RECORD_HEAD_SIZE;
        if rec.header.len() != H || rec.data.len() != payload_len - H {
            return false;
        }
        let mut ok = true;
        let mut i = 0;
        while i < H {
            if rec.header[i] != fmodel::DISK[p + i] { ok = false; }
            i += 1;
        }
        let mut j = 0;
        while j < payload_len - H {
            if rec.data[j] != fmodel::DISK[p + H + j] { ok = false; }
            j += 1;
        }
        ok
    }
}
