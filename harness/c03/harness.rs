// C03 (kernel) — scans are exact, ordered and gapless: the offset-index arithmetic.
// Unit: the verbatim `offsets_index` computation of StreamIterConfig::try_get_from_live_indexes (statement range)
// and SegmentIter::{new, remaining_offsets, skip, is_finished} (verbatim fns inside a mock SegmentIter with the same
// field names). A segment holds the stream's versions version_min .. version_min+len-1 at ascending file offsets.
use std::sync::Arc;

#[derive(Clone, Copy, Debug, PartialEq, Eq)]
pub enum IterDirection { Forward, Reverse }
pub struct ReaderThreadPool;
#[derive(Clone, Copy)]
pub struct BucketSegmentId;
pub struct SegmentBlock;

pub struct SegmentIter {
    pub(crate) reader_pool: ReaderThreadPool,
    pub(crate) bucket_segment_id: BucketSegmentId,
    pub(crate) block: Option<Arc<SegmentBlock>>,
    pub(crate) last_block_offset_attempt: u64,
    pub(crate) offsets: Vec<u64>,
    pub(crate) offsets_index: usize,
}

impl SegmentIter {
    // ---- verbatim from crates/sierradb/src/bucket/segment/iter.rs
@ITER_FNS@
}

/// the (verbatim) index computation of the iterator configs
fn offsets_index_for(offsets: &Vec<u64>, version_min: u64, from_position: u64, dir: IterDirection) -> usize {
@INDEX_EXPR@
    offsets_index
}

const LEN: usize = @LEN@;

/// `len` (events of the stream in this segment) is a shape parameter: Vec::reverse over a symbolic length blows up
fn scan(dir: IterDirection, len: usize) {
    // strictly increasing file offsets
    let base: [u64; LEN] = kani::any();
    let mut offsets: Vec<u64> = Vec::with_capacity(LEN);
    let mut i = 0;
    while i < LEN {
        if i < len {
            if i > 0 { kani::assume(base[i] > base[i - 1]); }
            offsets.push(base[i]);
        }
        i += 1;
    }
    let version_min: u64 = kani::any();
    kani::assume(version_min <= u64::MAX - LEN as u64 - 1);
    let from: u64 = kani::any();
    // the live-index path only builds an iterator when the segment can contain the position (version_min <= from);
    // sealed segments with version_min > from are handled by the segment hand-over, which is outside this kernel
    kani::assume(from >= version_min);
    let idx = offsets_index_for(&offsets, version_min, from, dir);
    let it = SegmentIter::new(ReaderThreadPool, BucketSegmentId, offsets, idx, dir);
    let rem = it.remaining_offsets();
    match dir {
        IterDirection::Forward => {
            // exactly the events at or after the position, ascending, gapless
            let skip = if from - version_min > len as u64 { len } else { (from - version_min) as usize };
            assert!(rem.len() == len - skip, "forward scan returns a wrong number of events");
            let j: usize = kani::any();
            if j < rem.len() {
                assert!(rem[j] == base[skip + j], "forward scan skipped, repeated or reordered an event");
            }
        }
        IterDirection::Reverse => {
            // exactly the events at or before the position, descending
            let last = if from - version_min >= len as u64 { len - 1 } else { (from - version_min) as usize };
            assert!(rem.len() == last + 1, "reverse scan returns a wrong number of events (events after the position, or too few)");
            let j: usize = kani::any();
            if j < rem.len() {
                assert!(rem[j] == base[last - j], "reverse scan skipped, repeated or reordered an event");
            }
        }
    }
    assert!(it.is_finished() == rem.is_empty());
    kani::cover!(from == version_min, "scan from the segment's first position");
    kani::cover!(from == u64::MAX);
    std::mem::forget(it);
}

@INSTANCES@

#[kani::proof]
#[kani::unwind(@UNW@)]
fn c03_skip_is_bounded() {
    let len: usize = kani::any();
    kani::assume(len <= LEN);
    let mut offsets: Vec<u64> = Vec::with_capacity(LEN);
    let mut i = 0;
    while i < LEN { if i < len { offsets.push(i as u64); } i += 1; }
    let idx: usize = kani::any();
    kani::assume(idx <= len);
    let mut it = SegmentIter::new(ReaderThreadPool, BucketSegmentId, offsets, idx, IterDirection::Forward);
    let c: usize = kani::any();
    kani::assume(c <= 2 * LEN);
    let before = it.remaining_offsets().len();
    it.skip(c);
    let after = it.remaining_offsets().len();
    assert!(after == before.saturating_sub(c), "skip(count) must drop exactly count remaining offsets (or all)");
    std::mem::forget(it);
}

#[kani::proof]
#[kani::unwind(@UNW@)]
fn c03_vacuity_witness() {
    let mut offsets = Vec::with_capacity(2);
    offsets.push(10u64);
    offsets.push(20u64);
    let it = SegmentIter::new(ReaderThreadPool, BucketSegmentId, offsets, 1, IterDirection::Reverse);
    kani::assume(it.remaining_offsets().len() == 2);
    std::mem::forget(it);
    assert!(false, "vacuity witness");
}
