// C08 — the confirmed watermark is sound, monotone and complete (in-memory algorithm).
// `version` is the 1-based position of an event in its partition; watermark w means versions 1..=w
// are quorum-confirmed. Ghost: best[v] = highest confirmation count ever reported for version v.
const V: usize = @V@; // versions 1..=V

fn fixed_now() -> std::time::SystemTime {
    let secs: u64 = kani::any();
    kani::assume(secs <= 1 << 40);
    std::time::UNIX_EPOCH + std::time::Duration::new(secs, 0)
}

fn prefix(best: &[u8; V + 1], quorum: u8) -> u64 {
    let mut p = 0u64;
    let mut v = 1;
    while v <= V {
        if best[v] >= quorum { p = v as u64; } else { break; }
        v += 1;
    }
    p
}

fn history(k: usize) {
    let rf: u8 = kani::any();
    kani::assume(rf >= 1 && rf <= 12);
    let quorum = rf / 2 + 1;
    let mut st = PartitionConfirmationState::new(7);
    let mut best = [0u8; V + 1];
    let mut i = 0;
    while i < k {
        let v: u64 = kani::any();
        let c: u8 = kani::any();
        kani::assume(v >= 1 && v <= V as u64);
        kani::assume(c <= rf);
        let before = st.confirmed_watermark.get();
        let advanced = st.update_confirmation(v, c, rf);
        if c > best[v as usize] { best[v as usize] = c; }
        let after = st.confirmed_watermark.get();
        assert!(after >= before, "watermark decreased");
        assert!(advanced == (after > before), "return value does not report the advance");
        let want = prefix(&best, quorum);
        assert!(after <= want, "watermark exceeds the longest quorum-confirmed prefix reported so far");
        assert!(after == want, "watermark stops short of the quorum-confirmed prefix although every confirmation was reported (order / duplicates / stale lower counts)");
        i += 1;
    }
    kani::cover!(st.confirmed_watermark.get() >= 2, "watermark advanced over two versions");
    kani::cover!(st.unconfirmed_events.len() >= 2, "out-of-order confirmations pending");
}

/// one update from an ARBITRARY reachable state (representation invariant: every key is above the
/// watermark and equals its entry's version; counters arbitrary): no panic, monotone, sound
fn inductive_step() {
    let rf: u8 = kani::any();
    kani::assume(rf >= 1 && rf <= 12);
    let quorum = rf / 2 + 1;
    let wm: u64 = kani::any();
    kani::assume(wm <= 2);
    let mut st = PartitionConfirmationState::new(7);
    st.confirmed_watermark = std::sync::Arc::new(AtomicWatermark::new(wm));
    st.highest_version = kani::any();
    let mut best = [0u8; V + 1];
    let mut j = 1;
    while j <= V {
        let present: bool = kani::any();
        if present && (j as u64) > wm {
            let info = UnconfirmedEventInfo { version: j as u64, confirmation_count: kani::any(), first_seen: kani::any(), last_attempt: kani::any(), attempts: kani::any() };
            kani::assume(info.confirmation_count <= rf);
            // contiguity invariant of reachable states: the entry right above the watermark is below quorum
            if j as u64 == wm + 1 { kani::assume(info.confirmation_count < quorum); }
            best[j] = info.confirmation_count;
            st.unconfirmed_events.insert(j as u64, info);
        }
        if (j as u64) <= wm { best[j] = quorum; }
        j += 1;
    }
    let v: u64 = kani::any();
    let c: u8 = kani::any();
    kani::assume(v >= 1 && v <= V as u64 && c <= rf);
    st.update_confirmation(v, c, rf);
    if c > best[v as usize] { best[v as usize] = c; }
    let after = st.confirmed_watermark.get();
    assert!(after >= wm, "watermark decreased");
    assert!(after <= prefix(&best, quorum), "watermark exceeds the confirmed prefix");
    // representation invariant is re-established
    let mut j = 1;
    while j <= V {
        if let Some(e) = st.unconfirmed_events.get(&(j as u64)) {
            assert!(e.version == j as u64 && (j as u64) > after, "entry at or below the watermark kept");
        }
        j += 1;
    }
    kani::cover!(after > wm);
}

#[kani::proof]
#[kani::unwind(@UNW@)]
fn c08_atomic_watermark() {
    let a: u64 = kani::any();
    let b: u64 = kani::any();
    let w = AtomicWatermark::new(a);
    let r = w.advance(b);
    assert!(w.get() == if b > a { b } else { a }, "advance is max");
    assert!(r == if b > a { Some(a) } else { None });
    let s: u64 = kani::any();
    assert!(w.can_read(s) == (s < w.get()), "can_read is strict");
}

@INSTANCES@

#[kani::proof]
#[kani::unwind(@UNW@)]
#[kani::stub(std::time::SystemTime::now, fixed_now)]
fn c08_vacuity_witness() {
    let mut st = PartitionConfirmationState::new(1);
    st.update_confirmation(1, 2, 3);
    kani::assume(st.confirmed_watermark.get() == 1);
    assert!(false, "vacuity witness");
}
