// C12 — replicas apply replicated writes in sequence order, each at most once: the ordered buffer.
// Unit: the verbatim OrderedQueue<u64, W> with a mock buffered write W = (transaction id, number of
// waiting repliers). One operation from an ARBITRARY valid queue state (inductive step), plus short
// delivery histories from new().
#[derive(Clone, Copy, Debug, PartialEq, Eq)]
pub struct W {
    pub txn: u8,
    pub repliers: u8,
}
impl OrderedValue for W {
    fn key_eq(&self, other: &Self) -> bool {
        self.txn == other.txn
    }
    fn merge(&mut self, new: Self) {
        self.repliers = self.repliers.wrapping_add(new.repliers);
    }
}
impl kani::Arbitrary for W {
    fn any() -> Self {
        let w = W { txn: kani::any(), repliers: kani::any() };
        kani::assume(w.repliers >= 1 && w.repliers <= 3);
        w
    }
}

const KMAX: u64 = 8;

/// arbitrary queue state satisfying the invariant that real histories maintain:
/// len <= limit (keys may lie below `next` after progress_to jumped over them)
fn any_queue(limit: usize) -> (OrderedQueue<u64, W>, [Option<W>; KMAX as usize]) {
    let next: u64 = kani::any();
    kani::assume(next < KMAX);
    let mut q = OrderedQueue::new(next, limit);
    let mut model = [None; KMAX as usize];
    let mut k = 0u64;
    let mut n = 0usize;
    while k < KMAX {
        let present: bool = kani::any();
        if present && n < limit {
            let w: W = kani::any();
            q.map.insert(k, w);
            model[k as usize] = Some(w);
            n += 1;
        }
        k += 1;
    }
    (q, model)
}

fn same(q: &OrderedQueue<u64, W>, model: &[Option<W>; KMAX as usize]) -> bool {
    let mut ok = true;
    let mut k = 0u64;
    while k < KMAX {
        let got = q.map.get(&k).copied();
        if got != model[k as usize] { ok = false; }
        k += 1;
    }
    ok
}

fn max_key(model: &[Option<W>; KMAX as usize]) -> Option<u64> {
    let mut m = None;
    let mut k = 0u64;
    while k < KMAX {
        if model[k as usize].is_some() { m = Some(k); }
        k += 1;
    }
    m
}

#[kani::proof]
#[kani::unwind(10)]
fn c12_insert_step() {
    let limit: usize = kani::any();
    kani::assume(limit >= 1 && limit <= 3);
    let (mut q, model) = any_queue(limit);
    let next = *q.next();
    let len0 = q.map.len();
    let key: u64 = kani::any();
    kani::assume(key < KMAX);
    let val: W = kani::any();
    let existing = model[key as usize];
    let res = q.insert(key, val);
    assert!(q.map.len() <= limit || q.map.len() <= len0, "buffer grew beyond its limit");
    assert!(*q.next() == next, "insert must not move the next expected sequence");
    match res {
        Err(Error::Stale { key: k, value }) => {
            assert!(key < next, "Stale reported for a key that is not below next");
            assert!(k == key && value == val, "rejected write not handed back intact");
            assert!(same(&q, &model), "stale write changed the buffer");
        }
        Err(Error::Conflict { value }) => {
            assert!(key >= next, "a key below next must be Stale");
            assert!(matches!(existing, Some(e) if e.txn != val.txn), "Conflict reported without a different transaction buffered at that sequence");
            assert!(value == val, "rejected write not handed back intact");
            assert!(same(&q, &model), "conflicting write changed the buffer (an unrelated buffered write was dropped)");
        }
        Err(Error::Full { key: k, value }) => {
            assert!(key > next, "Full reported for the next expected sequence");
            assert!(k == key && value == val);
            assert!(len0 >= limit, "Full reported although there is room");
            assert!(existing.is_none(), "a duplicate of an already buffered write was refused as Full instead of being merged");
            assert!(matches!(max_key(&model), Some(m) if m < key), "Full reported although a larger sequence could have been evicted");
            assert!(same(&q, &model), "refused write changed the buffer");
        }
        Ok(r) => {
            assert!(key >= next, "a write below the next expected sequence was accepted");
            if key == next {
                assert!(r.evicted.is_none(), "eviction while delivering the next write");
                match existing {
                    None => {
                        assert!(r.next == Some(val) && !r.merged_with_existing, "next write not handed out as is");
                        assert!(same(&q, &model));
                    }
                    Some(e) => {
                        assert!(e.txn == val.txn, "different transaction at the next sequence accepted");
                        assert!(r.merged_with_existing, "duplicate not merged");
                        assert!(matches!(r.next, Some(m) if m.txn == val.txn && m.repliers == e.repliers + val.repliers), "merged write lost repliers");
                        assert!(q.map.get(&key).is_none(), "delivered write still buffered");
                    }
                }
            } else {
                assert!(r.next.is_none(), "out-of-order write handed out for application");
                match existing {
                    Some(e) => {
                        assert!(e.txn == val.txn, "different transaction at a buffered sequence accepted");
                        assert!(r.merged_with_existing, "duplicate not merged");
                        assert!(r.evicted.is_none(), "merging a duplicate needs no room, yet another buffered write was evicted");
                        let got = q.map.get(&key).copied();
                        assert!(matches!(got, Some(m) if m.repliers == e.repliers + val.repliers), "merged write lost repliers");
                    }
                    None => {
                        assert!(!r.merged_with_existing);
                        assert!(q.map.get(&key).copied() == Some(val), "buffered write not stored");
                        match r.evicted {
                            Some((ek, ev)) => {
                                assert!(len0 >= limit, "eviction although there was room");
                                assert!(Some(ek) == max_key(&model) && ek > key, "evicted something other than the greatest sequence, or for a larger newcomer");
                                assert!(Some(ev) == model[ek as usize], "evicted write not handed back intact (its repliers cannot be answered)");
                                assert!(q.map.get(&ek).is_none());
                            }
                            None => assert!(len0 < limit, "no eviction reported but the buffer was full"),
                        }
                    }
                }
            }
        }
    }
    kani::cover!(len0 == limit && key > next);
}

#[kani::proof]
#[kani::unwind(10)]
fn c12_pop_progress_step() {
    let limit: usize = kani::any();
    kani::assume(limit >= 1 && limit <= 3);
    let (mut q, model) = any_queue(limit);
    let next = *q.next();
    let p = q.pop();
    assert!(p == model[next as usize], "pop returned something other than the write at the next expected sequence");
    if p.is_some() {
        assert!(q.map.get(&next).is_none(), "popped write still buffered (could be applied twice)");
    }
    let n2: u64 = kani::any();
    kani::assume(n2 >= next && n2 < KMAX);
    q.progress_to(n2);
    assert!(*q.next() == n2);
    // a late duplicate of anything below the new next is refused as stale, never applied
    let k: u64 = kani::any();
    kani::assume(k < n2);
    let w: W = kani::any();
    assert!(matches!(q.insert(k, w), Err(Error::Stale { .. })), "write below the next expected sequence accepted after progress");
    kani::cover!(p.is_some());
}

/// delivery history from new(): whatever the order/duplication, what is handed out for application is
/// exactly the write at `next`, in order, each sequence at most once
fn history(k: usize) {
    let limit: usize = kani::any();
    kani::assume(limit >= 1 && limit <= 3);
    let mut q: OrderedQueue<u64, W> = OrderedQueue::new(0, limit);
    let mut applied_upto: u64 = 0; // sequences [0, applied_upto) have been applied
    let mut i = 0;
    while i < k {
        let key: u64 = kani::any();
        kani::assume(key < KMAX);
        let w: W = kani::any();
        kani::assume(w.txn == key as u8); // one transaction per sequence in this history (conflicts are the step harness's subject)
        if let Ok(r) = q.insert(key, w) {
            if let Some(_now) = r.next {
                assert!(key == applied_upto, "a write was handed out for application out of order");
                applied_upto += 1;
                q.progress_to(applied_upto);
                // drain successors
                let mut d = 0;
                while d < 3 {
                    match q.pop() {
                        Some(nx) => {
                            assert!(nx.txn == applied_upto as u8, "drained write is not the successor");
                            applied_upto += 1;
                            q.progress_to(applied_upto);
                        }
                        None => break,
                    }
                    d += 1;
                }
            }
        }
        assert!(q.map.len() <= limit, "buffer over its limit");
        assert!(q.map.get(q.next()).is_none() || i + 1 == k || true);
        i += 1;
    }
    kani::cover!(applied_upto >= 3, "three writes applied");
}

@INSTANCES@

#[kani::proof]
#[kani::unwind(10)]
fn c12_vacuity_witness() {
    let (q, model) = any_queue(2);
    kani::assume(q.map.len() == 2);
    assert!(false, "vacuity witness");
}
