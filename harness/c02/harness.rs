// C02 (kernel) — appends are accepted exactly when their version conditions hold: the verbatim
// WriterSet::validate_event_versions against a reference model written from the property statement.
// Mock context: a WriterSet holding only `pending_indexes` and a symbolic stream index behind
// read_stream_latest_version; StreamId is a small Copy id; HashMap -> direct-indexed shim.
use shimmap::direct::{Entry, HashMap};
use shimmap::bitset::SmallKey;
use sierradb_protocol::{CurrentVersion, ExpectedVersion};

type Uuid = u128;

#[derive(Clone, Copy, PartialEq, Eq, Debug)]
pub struct StreamId(pub u8);
impl SmallKey for StreamId {
    fn idx(&self) -> usize { self.0 as usize }
    fn from_idx(i: usize) -> Self { StreamId(i as u8) }
}
pub struct NewEvent {
    pub stream_id: StreamId,
    pub stream_version: ExpectedVersion,
}
#[derive(Clone, Copy, Debug, PartialEq, Eq)]
pub struct StreamLatestVersion {
    pub partition_key: Uuid,
    pub version: u64,
}
pub struct PendingIndex {
    partition_key: Uuid,
    stream_id: StreamId,
    stream_version: u64,
}
#[derive(Debug)]
pub struct StreamIndexError;
#[derive(Debug)]
pub enum EventValidationError {
    PartitionKeyMismatch { existing_partition_key: Uuid, new_partition_key: Uuid },
}
#[derive(Debug)]
pub enum WriteError {
    WrongExpectedVersion { partition_key: Uuid, stream_id: StreamId, current: CurrentVersion, expected: ExpectedVersion },
    Validation(EventValidationError),
    StreamIndex(StreamIndexError),
}
impl From<StreamIndexError> for WriteError {
    fn from(e: StreamIndexError) -> Self { WriteError::StreamIndex(e) }
}

const NS: usize = 2; // streams
pub struct WriterSet {
    pending_indexes: Vec<PendingIndex>,
    index: [Option<StreamLatestVersion>; NS], // what the open/closed stream indexes answer
}
impl WriterSet {
    fn read_stream_latest_version(&self, stream_id: &StreamId) -> Result<Option<StreamLatestVersion>, StreamIndexError> {
        Ok(self.index[stream_id.0 as usize])
    }

    // ---- verbatim from crates/sierradb/src/writer_thread_pool.rs
@SLICE@
}

fn any_expected() -> ExpectedVersion {
    match kani::any::<u8>() % 4 {
        0 => ExpectedVersion::Any,
        1 => ExpectedVersion::Exists,
        2 => ExpectedVersion::Empty,
        _ => ExpectedVersion::Exact(kani::any()),
    }
}

const NE: usize = @NE@;   // events in the transaction

/// `np` pending (appended, not yet synced) index entries - a shape parameter, so that every Vec has a concrete length
fn check(np: usize) {
    let my_key: Uuid = kani::any();
    // ---- symbolic store state
    let mut index = [None; NS];
    let mut s = 0;
    while s < NS {
        if kani::any() {
            let v: u64 = kani::any();
            kani::assume(v < u64::MAX - NE as u64);
            index[s] = Some(StreamLatestVersion { partition_key: if kani::any() { my_key } else { kani::any() }, version: v });
        }
        s += 1;
    }
    let mut pending = Vec::with_capacity(2);
    // the truth about each stream: latest pending entry wins over the index (appended-but-unsynced events are newer)
    let mut truth = index;
    let mut p = 0;
    while p < np {
        {
            let sid: u8 = kani::any();
            kani::assume((sid as usize) < NS);
            let v: u64 = kani::any();
            kani::assume(v < u64::MAX - NE as u64);
            let pk: Uuid = if kani::any() { my_key } else { kani::any() };
            pending.push(PendingIndex { partition_key: pk, stream_id: StreamId(sid), stream_version: v });
            truth[sid as usize] = Some(StreamLatestVersion { partition_key: pk, version: v });
        }
        p += 1;
    }
    let ws = WriterSet { pending_indexes: pending, index };
    // ---- symbolic transaction
    let mut ev_stream = [0u8; NE];
    let mut ev_exp = [ExpectedVersion::Any; NE];
    let mut events = Vec::with_capacity(NE);
    let mut i = 0;
    while i < NE {
        let sid: u8 = kani::any();
        kani::assume((sid as usize) < NS);
        let e = any_expected();
        ev_stream[i] = sid;
        ev_exp[i] = e;
        events.push(NewEvent { stream_id: StreamId(sid), stream_version: e });
        i += 1;
    }
    // ---- reference model, from the statement: every event's expectation holds against the stream state including
    // earlier events of the same transaction; the stream's partition key matches
    let mut cur: [Option<u64>; NS] = [None; NS];   // current latest version per stream as the transaction proceeds
    let mut s = 0;
    while s < NS { cur[s] = truth[s].map(|t| t.version); s += 1; }
    let mut want_ok = true;
    let mut want_versions = [CurrentVersion::Empty; NE];
    let mut i = 0;
    while i < NE && want_ok {
        let s = ev_stream[i] as usize;
        let key_ok = match truth[s] { Some(t) => t.partition_key == my_key, None => true };
        let holds = match (ev_exp[i], cur[s]) {
            (ExpectedVersion::Any, _) => true,
            (ExpectedVersion::Exists, c) => c.is_some(),
            (ExpectedVersion::Empty, c) => c.is_none(),
            (ExpectedVersion::Exact(e), Some(c)) => c == e,
            (ExpectedVersion::Exact(_), None) => false,
        };
        if !(key_ok && holds) {
            want_ok = false;
        } else {
            want_versions[i] = match cur[s] { Some(c) => CurrentVersion::Current(c), None => CurrentVersion::Empty };
            cur[s] = Some(match cur[s] { Some(c) => c + 1, None => 0 });
        }
        i += 1;
    }
    // ---- the real validator
    let got = ws.validate_event_versions(my_key, &events);
    match &got {
        Ok(vs) => {
            assert!(want_ok, "append accepted although a version condition (or the partition key) does not hold");
            assert!(vs.len() == NE, "one current version per event");
            let mut i = 0;
            while i < NE {
                assert!(vs[i] == want_versions[i], "accepted append is assigned a wrong stream version");
                i += 1;
            }
        }
        Err(_) => assert!(!want_ok, "append rejected although every version condition and the partition key hold"),
    }
    kani::cover!(got.is_ok() && NE >= 2 && ev_stream[0] == ev_stream[NE - 1], "accepted transaction with a repeated stream");
    kani::cover!(got.is_err());
    std::mem::forget(got);
    std::mem::forget(events);
    std::mem::forget(ws);
}

#[kani::proof]
#[kani::unwind(@UNW@)]
fn c02_validate_p0() { check(0); }
#[kani::proof]
#[kani::unwind(@UNW@)]
fn c02_validate_p1() { check(1); }
#[kani::proof]
#[kani::unwind(@UNW@)]
fn c02_validate_p2() { check(2); }

#[kani::proof]
#[kani::unwind(@UNW@)]
fn c02_vacuity_witness() {
    let ws = WriterSet { pending_indexes: Vec::new(), index: [Some(StreamLatestVersion { partition_key: 7, version: 4 }), None] };
    let mut events = Vec::with_capacity(1);
    events.push(NewEvent { stream_id: StreamId(0), stream_version: ExpectedVersion::Exact(4) });
    let r = ws.validate_event_versions(7, &events);
    kani::assume(matches!(&r, Ok(v) if v.len() == 1));
    std::mem::forget(r);
    assert!(false, "vacuity witness");
}
