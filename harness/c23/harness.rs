// C23 — identifiers embed and preserve their partition routing. Whole input space: all 2^16
// hashes, ALL time and random bits (clock and rand are arbitrary values), all 128 UUID bits,
// all partition / bucket counts.
const BMAX: u16 = 256;

fn any_time() -> std::time::SystemTime {
    let secs: u64 = kani::any();
    let nanos: u32 = kani::any();
    kani::assume(secs <= (1u64 << 45)); // up to ~1.1 million years after 1970; the 48-bit ms field wraps far earlier and is masked
    kani::assume(nanos < 1_000_000_000);
    std::time::UNIX_EPOCH + std::time::Duration::new(secs, nanos)
}

fn any_uuid() -> Uuid {
    let v: u128 = kani::any();
    Uuid::from_bytes(v.to_be_bytes())
}

fn as_u128(u: Uuid) -> u128 {
    u128::from_be_bytes(u.into_bytes())
}

#[kani::proof]
#[kani::unwind(18)]
#[kani::stub(std::time::SystemTime::now, any_time)]
fn c23_embed_extract_validate() {
    let h: u16 = kani::any();
    let id = uuid_v7_with_partition_hash(h);
    assert!(uuid_to_partition_hash(id) == h, "extract(embed(h)) == h");
    assert!(validate_event_id(id, h), "a generated id validates for its own partition hash");
    let other: u16 = kani::any();
    kani::assume(other != h);
    assert!(!validate_event_id(id, other), "a generated id does not validate for another hash");
    let v = as_u128(id);
    assert!((v >> 64) & 0xF == 0x7, "version nibble");
    assert!((v >> 62) & 0x3 == 0x2, "variant bits");
    kani::cover!(h == 0xFFFF && (v & 1) == 1);
}

#[kani::proof]
#[kani::unwind(18)]
fn c23_flag_changes_one_bit_only() {
    let u = any_uuid();
    let f: bool = kani::any();
    let v = set_uuid_flag(u, f);
    assert!(get_uuid_flag(&v) == f, "get(set(u,f)) == f");
    let diff = as_u128(u) ^ as_u128(v);
    assert!(diff & !(1u128 << 63) == 0, "set_uuid_flag changed a bit other than the flag bit");
    assert!(uuid_to_partition_hash(v) == uuid_to_partition_hash(u), "the flag must not change the embedded hash");
    let w = set_uuid_flag(v, f);
    assert!(as_u128(w) == as_u128(v), "idempotent");
    // clearing after setting restores every other bit
    let back = set_uuid_flag(v, get_uuid_flag(&u));
    assert!(as_u128(back) == as_u128(u), "set(set(u,f), original flag) == u");
    kani::cover!(diff != 0);
}

#[kani::proof]
#[kani::unwind(18)]
#[kani::stub(std::time::SystemTime::now, any_time)]
fn c23_same_key_same_hash() {
    // stream partition key -> hash; event id generated for that hash, flagged or not, carries the SAME hash.
    // Partition id (hash % num_partitions) and bucket (partition_id % total_buckets) are functions of the
    // hash alone, so equal hashes route identically for every partition / bucket count.
    let key = any_uuid();
    let h = uuid_to_partition_hash(key);
    let id = uuid_v7_with_partition_hash(h);
    let flagged = set_uuid_flag(id, kani::any());
    assert!(uuid_to_partition_hash(id) == h, "event id and partition key carry different hashes");
    assert!(uuid_to_partition_hash(flagged) == h, "flagged id carries a different hash");
    assert!(validate_event_id(flagged, uuid_to_partition_hash(key)), "flagged id no longer validates for its key");
    kani::cover!(h == 0xABCD);
}

#[kani::proof]
#[kani::unwind(18)]
fn c23_bucket_helpers() {
    let u = any_uuid();
    let pid: u16 = kani::any();
    let b: u16 = kani::any();
    kani::assume(b > 0 && b <= BMAX);
    let pb = partition_id_to_bucket(pid, b);
    assert!(pb == pid % b, "partition -> bucket is partition_id mod buckets (what Database::append_events uses)");
    assert!(pb < b, "bucket id out of range");
    let eb = extract_event_id_bucket(u, b);
    assert!(eb == uuid_to_partition_hash(u) % b, "event-id bucket is hash mod buckets");
    assert!(eb < b);
    kani::cover!(b == 1);
    kani::cover!(b == BMAX && pb == BMAX - 1);
}

#[kani::proof]
#[kani::unwind(18)]
#[kani::stub(std::time::SystemTime::now, any_time)]
fn c23_vacuity_witness() {
    let id = uuid_v7_with_partition_hash(kani::any());
    kani::assume(uuid_to_partition_hash(id) == 0x1234);
    assert!(false, "vacuity witness");
}
