// C04 (kernel) — multi-event transactions are all-or-nothing for readers: the commit-matching loop.
// Unit: the verbatim SegmentBlock::read_committed_events; its `read_record` is mocked over a symbolic log of K
// records in which every record occupies one offset unit (event.size = 1, COMMIT_SIZE = 1).
// Logs are constrained to what the writer can leave on disk, INCLUDING crashes: a commit record with event_count n is
// immediately preceded by n unflagged events of its transaction (n >= 2); single-event transactions are one flagged
// event without commit; any other unflagged event is an orphan of a transaction that crashed before its commit
// (recovery keeps such intact records; a later retry may even reuse the transaction id).
// array-backed stand-in for smallvec::SmallVec<[EventRecord; 4]> (the real one brings a union, heap spilling and a Drop
// impl whose glue CBMC does not get through; a transaction of more than 4 events is outside the bound)
#[derive(Clone, Copy, Debug)]
pub struct SmallVec<A> { buf: [EventRecord; 4], n: usize, _a: std::marker::PhantomData<A> }
impl<A> SmallVec<A> {
    pub fn new() -> Self { SmallVec { buf: [EventRecord { offset: 0, size: 0, transaction_id: Uuid(0, false) }; 4], n: 0, _a: std::marker::PhantomData } }
    pub fn push(&mut self, e: EventRecord) {
        if self.n >= 4 { kani::assume(false); }
        self.buf[self.n] = e;
        self.n += 1;
    }
    pub fn is_empty(&self) -> bool { self.n == 0 }
    pub fn len(&self) -> usize { self.n }
    pub fn truncate(&mut self, k: usize) { if k < self.n { self.n = k; } }
    pub fn clear(&mut self) { self.n = 0; }
    pub fn pop(&mut self) -> Option<EventRecord> { if self.n == 0 { None } else { self.n -= 1; Some(self.buf[self.n]) } }
    pub fn first(&self) -> Option<&EventRecord> { if self.n == 0 { None } else { Some(&self.buf[0]) } }
    pub fn last(&self) -> Option<&EventRecord> { if self.n == 0 { None } else { Some(&self.buf[self.n - 1]) } }
    pub fn iter(&self) -> std::slice::Iter<'_, EventRecord> { self.buf[..self.n].iter() }
    pub fn remove(&mut self, idx: usize) -> EventRecord {
        assert!(idx < self.n);
        let e = self.buf[idx];
        let mut i = idx;
        while i + 1 < 4 { if i + 1 < self.n { self.buf[i] = self.buf[i + 1]; } i += 1; }
        self.n -= 1;
        e
    }
    pub fn retain<F: FnMut(&mut EventRecord) -> bool>(&mut self, mut f: F) {
        let mut w = 0;
        let mut i = 0;
        while i < 4 {
            if i < self.n { let mut e = self.buf[i]; if f(&mut e) { self.buf[w] = e; w += 1; } }
            i += 1;
        }
        self.n = w;
    }
    /// `drain(..k)`: remove the first k elements (the only form the sliced code uses)
    pub fn drain(&mut self, r: std::ops::RangeTo<usize>) {
        let k = r.end;
        assert!(k <= self.n);
        let mut i = 0;
        while i < 4 {
            if i + k < 4 && i + k < self.n { self.buf[i] = self.buf[i + k]; }
            i += 1;
        }
        self.n -= k;
    }
}
impl<A> std::ops::Index<usize> for SmallVec<A> {
    type Output = EventRecord;
    fn index(&self, i: usize) -> &EventRecord { assert!(i < self.n); &self.buf[i] }
}
macro_rules! try_q { ($e:expr) => { $e? }; }
macro_rules! ret_q { ($e:expr) => { return $e }; }
macro_rules! exit_q { ($e:expr) => { $e }; }
macro_rules! smallvec { ($e:expr) => {{ let mut v = SmallVec::new(); v.push($e); v }}; }

#[derive(Clone, Copy, PartialEq, Eq, Debug)]
pub struct Uuid(pub u8, pub bool); // (transaction number, single-event flag bit)
impl Uuid {
    pub fn nil() -> Self { Uuid(0, false) }
}
fn get_uuid_flag(u: &Uuid) -> bool { u.1 }

#[derive(Clone, Copy, Debug, PartialEq, Eq)]
pub struct EventRecord { pub offset: u64, pub size: u64, pub transaction_id: Uuid }
#[derive(Clone, Copy, Debug, PartialEq, Eq)]
pub struct CommitRecord { pub offset: u64, pub transaction_id: Uuid, pub event_count: u32 }
#[derive(Clone, Copy, Debug)]
pub enum Record { Event(EventRecord), Commit(CommitRecord) }
#[derive(Debug)]
pub enum CommittedEvents {
    Single(EventRecord),
    Transaction { events: Box<SmallVec<[EventRecord; 4]>>, commit: CommitRecord },
}
#[derive(Debug)]
pub struct ReadError;
const COMMIT_SIZE: usize = 1;

const K: usize = @K@;
pub struct SegmentBlock { log: [Record; K], len: usize }
impl SegmentBlock {
    pub fn read_record(&self, start_offset: u64) -> Result<Option<Record>, ReadError> {
        if (start_offset as usize) < self.len { Ok(Some(self.log[start_offset as usize])) } else { Ok(None) }
    }

    // ---- verbatim from crates/sierradb/src/bucket/segment/reader.rs (impl SegmentBlock)
@SLICE@
}

#[derive(Clone, Copy, Debug)]
pub enum ReadHint { Sequential, Random }
pub struct BucketSegmentReader { log: [Record; K], len: usize }
impl BucketSegmentReader {
    pub fn read_record(&mut self, start_offset: u64, _hint: ReadHint) -> Result<Option<Record>, ReadError> {
        if (start_offset as usize) < self.len { Ok(Some(self.log[start_offset as usize])) } else { Ok(None) }
    }

    // ---- from crates/sierradb/src/bucket/segment/reader.rs (impl BucketSegmentReader), polonius macros desugared
@SLICE2@
}

pub struct SegmentBlockIter { reader: SegmentBlock, offset: u64 }
impl SegmentBlockIter {
    // ---- verbatim from crates/sierradb/src/bucket/segment/reader.rs (impl SegmentBlockIter)
@ITER_SLICE@
}

fn any_record(i: usize) -> Record {
    let txn: u8 = kani::any();
    kani::assume(txn >= 1 && txn <= 3);
    if kani::any() {
        Record::Event(EventRecord { offset: i as u64, size: 1, transaction_id: Uuid(txn, kani::any()) })
    } else {
        let n: u32 = kani::any();
        Record::Commit(CommitRecord { offset: i as u64, transaction_id: Uuid(txn, false), event_count: n })
    }
}

/// what the writer (plus crashes) can leave in a segment
fn well_formed(log: &[Record; K], len: usize) -> bool {
    let mut ok = true;
    let mut j = 0;
    while j < K {
        if j < len {
            if let Record::Commit(c) = log[j] {
                let n = c.event_count as usize;
                if n < 2 || n > j { ok = false; } else {
                    let mut k = 1;
                    while k <= K {
                        if k <= n {
                            match log[j - k] {
                                Record::Event(e) => { if e.transaction_id != c.transaction_id || e.transaction_id.1 { ok = false; } }
                                Record::Commit(_) => ok = false,
                            }
                        }
                        k += 1;
                    }
                }
            }
        }
        j += 1;
    }
    ok
}

/// a committed group (a flagged single event, or the event_count events before a commit) has its first record at j
fn group_starts_at(log: &[Record; K], len: usize, j: usize) -> bool {
    if let Record::Event(e) = log[j] { if e.transaction_id.1 { return true; } }
    let mut r = false;
    let mut q = 0;
    while q < K {
        if q < len {
            if let Record::Commit(c) = log[q] { if q as u64 == j as u64 + c.event_count as u64 { r = true; } }
        }
        q += 1;
    }
    r
}

fn check(len: usize) { check_with(len, false) }
fn check_bucket_reader(len: usize) { check_with(len, true) }

fn check_with(len: usize, bucket_reader: bool) {
    let mut log = [Record::Event(EventRecord { offset: 0, size: 1, transaction_id: Uuid(1, true) }); K];
    let mut i = 0;
    while i < K { if i < len { log[i] = any_record(i); } i += 1; }
    kani::assume(well_formed(&log, len));
    let start: u64 = kani::any();
    kani::assume((start as usize) < len);
    let res = if bucket_reader {
        let mut rd = BucketSegmentReader { log, len };
        rd.read_committed_events(start, ReadHint::Sequential)
    } else {
        let blk = SegmentBlock { log, len };
        blk.read_committed_events(start)
    };
    match &res {
        Ok((Some(CommittedEvents::Single(e)), next)) => {
            assert!(e.transaction_id.1, "an event of a multi-event transaction was returned alone, without its commit");
            assert!(e.offset == start, "single event returned from another offset");
        }
        Ok((Some(CommittedEvents::Transaction { events, commit }), next)) => {
            assert!(!events.is_empty());
            let first_member = commit.offset - commit.event_count as u64; // the transaction's events are the event_count records before its commit
            let mut m = 0;
            while m < 4 {
                if m < events.len() {
                    let e = events[m];
                    assert!(e.transaction_id == commit.transaction_id && !e.transaction_id.1, "an event of another transaction (or a single-event transaction) was returned inside the group");
                    assert!(e.offset >= first_member && e.offset < commit.offset, "an orphaned event (written by an attempt that never committed) was returned as part of a committed transaction");
                    if m > 0 { assert!(e.offset == events[m - 1].offset + 1, "group is not a contiguous run"); }
                }
                m += 1;
            }
            assert!(events.len() <= 4);
        }
        Ok((None, Some(next))) => {
            // "nothing committed at the requested offset, continue at `next`": the resume offset must not step over the
            // first record of a committed transaction (iteration / index hydration would lose or cut that transaction)
            let mut j = 0;
            while j < K {
                if j < len && j as u64 >= start && (j as u64) < *next {
                    assert!(!group_starts_at(&log, len, j), "the resume offset skips the first event of a committed transaction");
                }
                j += 1;
            }
        }
        Ok((None, None)) => {}
        Err(_) => assert!(false, "read failed on a well-formed log"),
    }
    kani::cover!(matches!(&res, Ok((Some(CommittedEvents::Transaction { .. }), _))));
    std::mem::forget(res);
}

/// iterating committed events over the whole log yields exactly the committed transactions, in order, none lost
/// (this is what index hydration after a restart relies on)
fn iterate(len: usize) {
    let mut log = [Record::Event(EventRecord { offset: 0, size: 1, transaction_id: Uuid(1, true) }); K];
    let mut i = 0;
    while i < K { if i < len { log[i] = any_record(i); } i += 1; }
    kani::assume(well_formed(&log, len));
    // model: first-event offset of every committed group, in log order
    let mut want = [u64::MAX; K];
    let mut nw = 0;
    let mut j = 0;
    while j < K {
        if j < len {
            match log[j] {
                Record::Event(e) => { if e.transaction_id.1 { want[nw] = j as u64; nw += 1; } }
                Record::Commit(c) => { want[nw] = j as u64 - c.event_count as u64; nw += 1; }
            }
        }
        j += 1;
    }
    let mut it = SegmentBlockIter { reader: SegmentBlock { log, len }, offset: 0 };
    let mut got = [u64::MAX; K];
    let mut ng = 0;
    let mut k = 0;
    while k <= K {
        let r = it.next_committed_events();
        let mut stop = false;
        match &r {
            Ok(Some(CommittedEvents::Single(e))) => { if ng < K { got[ng] = e.offset; } ng += 1; }
            Ok(Some(CommittedEvents::Transaction { events, commit })) => {
                assert!(events.len() == commit.event_count as usize, "iteration returned a partial or over-full transaction");
                if ng < K { got[ng] = events[0].offset; }
                ng += 1;
            }
            Ok(None) => stop = true,
            Err(_) => { assert!(false, "iteration failed on a well-formed log"); }
        }
        std::mem::forget(r);
        if stop { break; }
        k += 1;
    }
    assert!(ng == nw, "iteration over committed events lost or invented a committed transaction (e.g. stopped at uncommitted leftovers)");
    let m: usize = kani::any();
    if m < nw && m < K { assert!(got[m] == want[m], "iteration returned committed transactions out of order or from wrong offsets"); }
    kani::cover!(nw >= 2);
    std::mem::forget(it);
}

@INSTANCES@

#[kani::proof]
#[kani::unwind(@UNW@)]
fn c04_vacuity_witness() {
    let t = Uuid(1, false);
    let mut log = [Record::Event(EventRecord { offset: 0, size: 1, transaction_id: t }); K];
    log[1] = Record::Event(EventRecord { offset: 1, size: 1, transaction_id: t });
    log[2] = Record::Commit(CommitRecord { offset: 2, transaction_id: t, event_count: 2 });
    let blk = SegmentBlock { log, len: 3 };
    let res = blk.read_committed_events(0);
    kani::assume(matches!(&res, Ok((Some(CommittedEvents::Transaction { events, .. }), Some(3))) if events.len() == 2));
    std::mem::forget(res);
    assert!(false, "vacuity witness");
}
