// C26 — write circuit breaker: panic-free under interleavings, opens only after the configured
// failures, bounded half-open probes.
//
// Concurrency is data (Kani has no threads): every atomic access and every clock read of the
// running method is a schedule point at which up to DEPTH *complete* operations of other threads
// may run (properly nested / LIFO context switches). The clock is arbitrary but non-decreasing
// across ALL reads. Atomics are sequentially consistent.
// (atomic types and Ordering are imported by the included circuit_breaker.rs)

static mut CB: *const WriteCircuitBreaker = std::ptr::null();
static mut CLOCK: u64 = 0;
static mut DEPTH_LEFT: u8 = 0;
static mut INTERFERED: bool = false;
// ghosts
static mut PROBES: u32 = 0;        // admitted requests in the current half-open episode
static mut TOTAL_FAILS: u32 = 0;   // record_failure calls started (any thread)
static mut CONSEC_FAILS: u32 = 0;  // record_failure calls since the last record_success (sequential harness only)
static mut SEQUENTIAL: bool = false;
static mut INTF_MASK: u8 = 0b0111; // which operations interfering threads may run

fn cb() -> &'static WriteCircuitBreaker {
    unsafe { &*CB }
}

fn raw_state() -> u8 {
    unsafe { *cb().state.as_ptr() }
}

/// one complete public operation, with the ghost bookkeeping; `which` in 0..4
fn op(which: u8) {
    let b = cb();
    let before = raw_state();
    match which {
        0 => {
            let admitted = b.should_allow_request();
            let after = raw_state();
            unsafe {
                if before != 2 && after == 2 { PROBES = 0; } // a new half-open episode began inside this call
                if admitted && after == 2 {
                    PROBES += 1;
                    assert!(PROBES <= b.half_open_max_calls, "more probe requests admitted in one half-open episode than half_open_max_calls");
                }
            }
        }
        1 => {
            unsafe { CONSEC_FAILS = 0; }
            b.record_success();
        }
        2 => {
            unsafe { TOTAL_FAILS += 1; CONSEC_FAILS += 1; }
            b.record_failure();
            let after = raw_state();
            unsafe {
                if before == 0 && after == 1 {
                    assert!(TOTAL_FAILS >= b.failure_threshold, "circuit opened before failure_threshold failures were reported");
                    if SEQUENTIAL {
                        assert!(CONSEC_FAILS >= b.failure_threshold, "circuit opened without failure_threshold CONSECUTIVE failures");
                    }
                }
            }
        }
        _ => {
            let r = b.estimated_recovery_time();
            if let Some(d) = r {
                assert!(d <= b.recovery_timeout, "estimated recovery time exceeds the configured timeout");
            }
        }
    }
    let after = raw_state();
    unsafe {
        if before != 2 && after == 2 && which != 0 { PROBES = 0; }
        if SEQUENTIAL && which != 2 && before == 0 {
            assert!(after != 1, "circuit opened by an operation other than a failure report");
        }
    }
}

/// schedule point: other threads may run complete operations here
fn interfere() {
    unsafe {
        if DEPTH_LEFT == 0 { return; }
        if kani::any::<bool>() {
            DEPTH_LEFT -= 1;
            INTERFERED = true;
            let w: u8 = kani::any();
            kani::assume(w < 4 && (INTF_MASK >> w) & 1 == 1);
            op(w);
            DEPTH_LEFT += 1;
        }
    }
}

// ---- stubs for the atomics the breaker uses (SC semantics) and its clock
fn load_u8(a: &AtomicU8, _o: Ordering) -> u8 { interfere(); unsafe { *a.as_ptr() } }
fn store_u8(a: &AtomicU8, v: u8, _o: Ordering) { interfere(); unsafe { *a.as_ptr() = v } }
fn cas_u8(a: &AtomicU8, cur: u8, new: u8, _s: Ordering, _f: Ordering) -> Result<u8, u8> {
    interfere();
    unsafe {
        let p = a.as_ptr();
        let old = *p;
        if old == cur { *p = new; Ok(old) } else { Err(old) }
    }
}
fn load_u32(a: &AtomicU32, _o: Ordering) -> u32 { interfere(); unsafe { *a.as_ptr() } }
fn store_u32(a: &AtomicU32, v: u32, _o: Ordering) { interfere(); unsafe { *a.as_ptr() = v } }
fn fetch_add_u32(a: &AtomicU32, v: u32, _o: Ordering) -> u32 {
    interfere();
    unsafe {
        let p = a.as_ptr();
        let old = *p;
        *p = old.wrapping_add(v);
        old
    }
}
fn load_u64(a: &AtomicU64, _o: Ordering) -> u64 { interfere(); unsafe { *a.as_ptr() } }
fn store_u64(a: &AtomicU64, v: u64, _o: Ordering) { interfere(); unsafe { *a.as_ptr() = v } }
fn clock_stub() -> u64 {
    interfere();
    unsafe {
        let step: u64 = kani::any();
        kani::assume(step <= MAX_STEP);
        CLOCK += step;
        CLOCK
    }
}

macro_rules! cb_harness {
    ($name:ident, $unwind:literal, $body:block) => {
        #[kani::proof]
        #[kani::unwind($unwind)]
        #[kani::stub(std::sync::atomic::Atomic::<u8>::load, load_u8)]
        #[kani::stub(std::sync::atomic::Atomic::<u8>::store, store_u8)]
        #[kani::stub(std::sync::atomic::Atomic::<u8>::compare_exchange, cas_u8)]
        #[kani::stub(std::sync::atomic::Atomic::<u32>::load, load_u32)]
        #[kani::stub(std::sync::atomic::Atomic::<u32>::store, store_u32)]
        #[kani::stub(std::sync::atomic::Atomic::<u32>::fetch_add, fetch_add_u32)]
        #[kani::stub(std::sync::atomic::Atomic::<u64>::load, load_u64)]
        #[kani::stub(std::sync::atomic::Atomic::<u64>::store, store_u64)]
        #[kani::stub(current_timestamp, clock_stub)]
        fn $name() $body
    };
}

const MAX_STEP: u64 = 1 << 20;

fn run(main_ops: usize, depth: u8, sequential: bool, main_mask: u8, intf_mask: u8) {
    let threshold: u32 = kani::any();
    let max_calls: u32 = kani::any();
    let succ_thr: u32 = kani::any();
    let timeout_ms: u64 = kani::any();
    kani::assume(threshold >= 1 && threshold <= 3);
    kani::assume(max_calls >= 1 && max_calls <= 2);
    kani::assume(succ_thr >= 1 && succ_thr <= 2);
    kani::assume(timeout_ms <= 4 * MAX_STEP);
    unsafe {
        CLOCK = kani::any();
        kani::assume(CLOCK >= 1 && CLOCK <= 1 << 41); // a wall clock in milliseconds, after 1970
        DEPTH_LEFT = 0;
        SEQUENTIAL = sequential;
        INTF_MASK = intf_mask;
    }
    let b = WriteCircuitBreaker::new(threshold, Duration::from_millis(timeout_ms), max_calls, succ_thr);
    unsafe {
        CB = &b as *const _;
        DEPTH_LEFT = depth;
    }
    let mut i = 0;
    while i < main_ops {
        let w: u8 = kani::any();
        kani::assume(w < 4 && (main_mask >> w) & 1 == 1);
        op(w);
        interfere();
        i += 1;
    }
    kani::cover!(raw_state() != 0, "the breaker left Closed");
}

@INSTANCES@

cb_harness!(c26_vacuity_witness, 4, {
    let b = WriteCircuitBreaker::new(1, Duration::from_millis(0), 1, 1);
    unsafe { CB = &b as *const _; }
    op(2);
    kani::assume(raw_state() == 1);
    assert!(false, "vacuity witness");
});
