// Shared harness crate for C13 (storage placement == cluster routing), C14 (replica sets) and
// C16 (bucket -> writer thread routing). All repo functions are verbatim slices.

// ------------------------------------------------------------------ C13 / C14 helpers
fn mk_config(node_count: u32, index: u32, buckets: u16, partitions: u16, rf: u8) -> AppConfig {
    AppConfig {
        bucket: BucketConfig { count: buckets, ids: None },
        node: NodeConfig { count: Some(node_count), index },
        partition: PartitionConfig { count: partitions, ids: None },
        replication: ReplicationConfig { factor: rf },
        nodes: None,
    }
}

/// the cross-field rules of AppConfig::validate (sierradb-server/src/config.rs) that concern placement
fn config_valid(node_count: u32, index: u32, buckets: u16, partitions: u16, rf: u8) -> bool {
    buckets > 0 && partitions > 0 && rf > 0 && node_count > 0 && index < node_count
        && (partitions as usize) >= node_count as usize && partitions >= buckets
}

const NMAX: u32 = @NMAX@;
const BMAX: u16 = @BMAX@;
const PMAX: u16 = @PMAX@;
const RMAX: u8 = @RMAX@;

/// node count and bucket count are shape parameters (all pairs are instantiated): every division in the
/// placement rules is then by a constant; node index, partition count and replication factor stay symbolic
fn c13_placement(n: u32, b: u16) {
    let (idx, p, rf): (u32, u16, u8) = (kani::any(), kani::any(), kani::any());
    kani::assume(p <= PMAX && rf <= RMAX);
    kani::assume(config_valid(n, idx, b, p, rf));
    let cfg = mk_config(n, idx, b, p, rf);
    let stored_buckets = cfg.assigned_buckets().unwrap();
    let stored_partitions = cfg.assigned_partitions(&stored_buckets);
    let routed_partitions = Topo::calculate_assigned_partitions(idx as usize, n as usize, p, b, rf);
    // for every partition (one symbolic witness stands for all)
    let q: u16 = kani::any();
    kani::assume(q < p);
    let stored = stored_partitions.contains(&q);
    let routed = routed_partitions.contains(&q);
    assert!(!(routed && !stored), "the cluster routes a partition to this node whose bucket the node does not open for storage");
    assert!(!(stored && !routed), "the node opens a bucket for a partition the cluster topology never routes to it");
    // bucket level: a bucket is stored iff one of its partitions is routed here
    assert!(stored_buckets.contains(&(q % b)) == routed, "bucket placement (config) disagrees with partition routing (topology)");
    kani::cover!(routed);
}

fn c14_replica_sets(n: u32, b: u16) {
    let (p, rf): (u16, u8) = (kani::any(), kani::any());
    kani::assume(p >= 1 && p <= PMAX && rf >= 1 && rf <= RMAX);
    // every node is known (the "same live members" of the statement = all N)
    let mut known: HashMap<usize, u32> = HashMap::new();
    let mut i = 0u32;
    while i < n {
        known.insert(i as usize, 100 + i); // node ref = 100 + index
        i += 1;
    }
    let q: u16 = kani::any();
    kani::assume(q < p);
    let reps = Topo::calculate_partition_replicas(q, b, n as usize, rf, &known);
    let want = if (rf as u32) < n { rf as usize } else { n as usize };
    assert!(reps.len() == want, "a partition does not have exactly min(rf, N) replicas");
    let (x, y): (usize, usize) = (kani::any(), kani::any());
    if x < y && y < reps.len() {
        assert!(reps[x] != reps[y], "replica set contains a node twice");
    }
    // a node owns the partition iff it is in the replica set
    let node: u32 = kani::any();
    kani::assume(node < n);
    let owns = Topo::calculate_assigned_partitions(node as usize, n as usize, p, b, rf).contains(&q);
    let mut listed = false;
    let mut k = 0;
    while k < reps.len() {
        if reps[k] == 100 + node { listed = true; }
        k += 1;
    }
    assert!(owns == listed, "node owns a partition without being in its replica set (or vice versa)");
    // first replica (coordinator order) is the bucket's primary node
    assert!(reps[0] == 100 + ((q % b) as u32 % n), "replica order does not start at the primary node");
    kani::cover!(owns);
}

/// effective replication factor for LARGE clusters: ownership predicate against wide arithmetic
#[kani::proof]
#[kani::unwind(@UNW@)]
fn c14_ownership_large_n() {
    let n: u32 = kani::any();
    let rf: u8 = kani::any();
    kani::assume(n >= 1 && n <= 1024 && rf >= 1 && rf <= RMAX);
    let node: u32 = kani::any();
    kani::assume(node < n);
    // one bucket, one partition: partition 0 lives in bucket 0, primary node 0
    let owns = Topo::calculate_assigned_partitions(node as usize, n as usize, 1, 1, rf).contains(&0);
    let eff = if (rf as u32) < n { rf as u32 } else { n }; // min(rf, N) in wide arithmetic
    let want = node < eff; // replicas of partition 0 are nodes 0..eff
    assert!(owns == want, "ownership for a cluster of N nodes disagrees with min(rf, N) replicas (integer width?)");
    kani::cover!(n >= 256 && want);
}

// ------------------------------------------------------------------ C16
const LMAX: usize = @LMAX@;

#[kani::proof]
#[kani::unwind(@UNW@)]
fn c16_bucket_to_thread_routing() {
    let ids: [u16; LMAX] = kani::any();
    let len: usize = kani::any();
    kani::assume(len >= 1 && len <= LMAX);
    // pairwise distinct bucket ids (all pairs)
    let mut a = 0;
    while a < LMAX {
        let mut b = a + 1;
        while b < LMAX {
            kani::assume(ids[a] != ids[b]);
            b += 1;
        }
        a += 1;
    }
    let threads: u16 = kani::any();
    kani::assume(threads >= 1 && threads as usize <= len);
    let list = &ids[..len];
    // every listed bucket is owned by exactly one thread in range; two lookups agree (routing == ownership)
    let i: usize = kani::any();
    kani::assume(i < len);
    let t = bucket_id_to_thread_id(ids[i], list, threads);
    assert!(matches!(t, Some(x) if x < threads), "a listed bucket has no writer thread or one out of range");
    // ownership is monotone in list position and balanced (sizes differ by at most one): position j > i never maps lower
    let j: usize = kani::any();
    kani::assume(i < j && j < len);
    let tj = bucket_id_to_thread_id(ids[j], list, threads);
    assert!(tj.unwrap() >= t.unwrap(), "thread assignment not monotone in bucket position");
    assert!(tj.unwrap() - t.unwrap() <= (j - i) as u16, "thread ids skip");
    // an unlisted bucket is routed nowhere
    let other: u16 = kani::any();
    let mut k = 0;
    let mut listed = false;
    while k < LMAX {
        if k < len && other == ids[k] { listed = true; }
        k += 1;
    }
    if !listed {
        assert!(bucket_id_to_thread_id(other, list, threads).is_none(), "an unlisted bucket was routed to a thread");
    }
    kani::cover!(threads >= 2 && t.unwrap() >= 1);
}

/// every writer thread owns at least one bucket and the load is balanced (len, threads are shape parameters)
fn c16_balance(len: usize, threads: u16) {
    let ids: [u16; LMAX] = [10, 11, 12, 13, 14, 15];
    let list = &ids[..len];
    let mut minc = u16::MAX;
    let mut maxc = 0u16;
    let mut th = 0u16;
    while th < threads {
        let mut c = 0u16;
        let mut i = 0;
        while i < len {
            if bucket_id_to_thread_id(ids[i], list, threads) == Some(th) { c += 1; }
            i += 1;
        }
        assert!(c >= 1, "a writer thread owns no bucket");
        if c < minc { minc = c; }
        if c > maxc { maxc = c; }
        th += 1;
    }
    assert!(maxc - minc <= 1, "buckets are not spread evenly over the writer threads");
}

#[kani::proof]
#[kani::unwind(@UNW@)]
fn c16_every_thread_owns_a_bucket() {
    // all (len, threads) with threads <= len <= 6: concrete enumeration of a tiny pure function
    let mut len = 1;
    while len <= LMAX {
        let mut t = 1u16;
        while t as usize <= len {
            c16_balance(len, t);
            t += 1;
        }
        len += 1;
    }
}

@INSTANCES@

#[kani::proof]
#[kani::unwind(@UNW@)]
fn topo_vacuity_witness() {
    let cfg = mk_config(2, 0, 4, 4, 1);
    let s = cfg.assigned_buckets().unwrap();
    kani::assume(s.len() == 2);
    assert!(false, "vacuity witness");
}
