#!/bin/sh
# usage: run_tier.sh <tier> <ID>...   runs the given checks sequentially, one summary line each
cd "$(dirname "$0")"
tier=$1; shift
for p in "$@"; do
  t0=$(date +%s)
  ./check $p --tier $tier > /tmp/${tier}_$p.log 2>&1
  rc=$?
  echo "$p tier=$tier rc=$rc $(( $(date +%s) - t0 ))s $(grep -E '^OK|^VIOLATION|^INCONCLUSIVE|^KNOWN' /tmp/${tier}_$p.log | head -4 | cut -c1-200 | tr '\n' '|')"
done
