//! C26 native reproducer (single-threaded scenarios). usage: c26 probes|opens
// the real source file of /repo (it depends on std only), not a copy
#[allow(dead_code)]
#[path = "/repo/crates/sierradb-cluster/src/circuit_breaker.rs"]
mod circuit_breaker;
use circuit_breaker::{CircuitState, WriteCircuitBreaker};
use std::time::Duration;

fn main() {
    let scen = std::env::args().nth(1).unwrap_or_else(|| "probes".into());
    let mut bad: Option<String> = None;
    std::panic::set_hook(Box::new(|_| {}));
    match scen.as_str() {
        "probes" => {
            for max in 1u32..=3 {
                let cb = WriteCircuitBreaker::new(1, Duration::from_millis(5), max, 100);
                cb.record_failure();
                assert_eq!(cb.current_state(), CircuitState::Open);
                std::thread::sleep(Duration::from_millis(10));
                let mut admitted = 0;
                for _ in 0..10 {
                    if cb.should_allow_request() {
                        admitted += 1;
                    }
                }
                if cb.current_state() == CircuitState::HalfOpen && admitted > max {
                    bad = Some(format!("half_open_max_calls={max} but {admitted} requests admitted in one half-open episode"));
                }
            }
        }
        "opens" => {
            let cb = WriteCircuitBreaker::new(3, Duration::from_secs(5), 1, 1);
            cb.record_failure();
            cb.record_failure();
            cb.record_success();
            cb.record_failure();
            if cb.current_state() == CircuitState::Open {
                bad = Some("opened after 2 failures, a success and 1 failure with threshold 3".into());
            }
        }
        // bounded native search with the harness's own oracles over the REAL code: every op sequence of
        // length <= 6, small configurations, recovery timeout 0 (immediately recoverable) or 1 h (never)
        "search" => {
            'outer: for threshold in 1u32..=3 {
                for max_calls in 1u32..=2 {
                    for succ in 1u32..=2 {
                        for timeout in [Duration::ZERO, Duration::from_secs(3600)] {
                            for len in 1..=6u32 {
                                for code in 0..4u32.pow(len) {
                                    let cb = WriteCircuitBreaker::new(threshold, timeout, max_calls, succ);
                                    let (mut consec, mut probes) = (0u32, 0u32);
                                    let mut c = code;
                                    let mut trace = Vec::new();
                                    for _ in 0..len {
                                        let op = c % 4;
                                        c /= 4;
                                        let before = cb.current_state();
                                        trace.push(["allow", "success", "failure", "estimate"][op as usize]);
                                        let r = std::panic::catch_unwind(std::panic::AssertUnwindSafe(|| match op {
                                            0 => cb.should_allow_request(),
                                            1 => { cb.record_success(); false }
                                            2 => { cb.record_failure(); false }
                                            _ => { let _ = cb.estimated_recovery_time(); false }
                                        }));
                                        let Ok(admitted) = r else {
                                            bad = Some(format!("panic in {trace:?} (threshold {threshold}, max_calls {max_calls}, success_threshold {succ}, timeout {timeout:?})"));
                                            break 'outer;
                                        };
                                        let after = cb.current_state();
                                        if op == 1 { consec = 0; }
                                        if op == 2 { consec += 1; }
                                        if before != CircuitState::HalfOpen && after == CircuitState::HalfOpen { probes = 0; }
                                        if op == 0 && admitted && after == CircuitState::HalfOpen {
                                            probes += 1;
                                            if probes > max_calls {
                                                bad = Some(format!("{probes} probes admitted in one half-open episode with half_open_max_calls={max_calls}: {trace:?} (threshold {threshold}, success_threshold {succ}, timeout {timeout:?})"));
                                                break 'outer;
                                            }
                                        }
                                        if before == CircuitState::Closed && after == CircuitState::Open && (op != 2 || consec < threshold) {
                                            bad = Some(format!("circuit opened after {consec} consecutive failure(s) with failure_threshold={threshold}: {trace:?} (max_calls {max_calls}, success_threshold {succ}, timeout {timeout:?})"));
                                            break 'outer;
                                        }
                                    }
                                }
                            }
                        }
                    }
                }
            }
        }
        _ => std::process::exit(2),
    }
    match bad {
        Some(m) => {
            println!("REPRODUCED C26 {scen}: {m}");
            std::process::exit(1);
        }
        None => println!("not reproduced: C26 {scen} behaves"),
    }
}
