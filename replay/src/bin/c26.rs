//! C26 native reproducer (single-threaded scenarios). usage: c26 probes|opens
// the real source file of /repo (it depends on std only), not a copy
#[allow(dead_code)]
#[path = "/repo/crates/sierradb-cluster/src/circuit_breaker.rs"]
mod circuit_breaker;
use circuit_breaker::{CircuitState, WriteCircuitBreaker};
use std::time::Duration;

fn main() {
    let scen = std::env::args().nth(1).unwrap_or_else(|| "probes".into());
    let mut bad = None;
    match scen.as_str() {
        "probes" => {
            for max in 1u32..=3 {
                let cb = WriteCircuitBreaker::new(1, Duration::from_millis(5), max, 100);
                cb.record_failure();
                assert_eq!(cb.current_state(), CircuitState::Open);
                std::thread::sleep(Duration::from_millis(10));
                let mut admitted = 0;
                for _ in 0..10 {
                    if cb.should_allow_request() {
                        admitted += 1;
                    }
                }
                if cb.current_state() == CircuitState::HalfOpen && admitted > max {
                    bad = Some(format!("half_open_max_calls={max} but {admitted} requests admitted in one half-open episode"));
                }
            }
        }
        "opens" => {
            let cb = WriteCircuitBreaker::new(3, Duration::from_secs(5), 1, 1);
            cb.record_failure();
            cb.record_failure();
            cb.record_success();
            cb.record_failure();
            if cb.current_state() == CircuitState::Open {
                bad = Some("opened after 2 failures, a success and 1 failure with threshold 3".into());
            }
        }
        _ => std::process::exit(2),
    }
    match bad {
        Some(m) => {
            println!("REPRODUCED C26 {scen}: {m}");
            std::process::exit(1);
        }
        None => println!("not reproduced: C26 {scen} behaves"),
    }
}
