//! C05-K1 native reproducer: real seglog on a real file; tries EVERY cut natively. usage: c05 <H> <n1> <n2> <n3> <start> <synced>
use seglog::read::{ReadHint, Reader};
use seglog::write::Writer;
use std::io::{Seek, SeekFrom, Write};

fn run<const H: usize>(n: [usize; 3], start: u64, synced: usize) -> Option<String> {
    let dir = tempfile::tempdir().unwrap();
    let path = dir.path().join("seg");
    let size = 4096usize;
    let data = |k: usize, s: u8| -> Vec<u8> { (0..k).map(|i| s.wrapping_add(i as u8) | 1).collect() };
    let mut w = Writer::<H>::create(&path, size, start).unwrap();
    let mut offs = vec![];
    for (i, k) in n.iter().enumerate() {
        let (o, l) = w.append(&[0x11; H], &data(*k, 10 + i as u8)).unwrap();
        offs.push((o, l));
        if synced == i + 1 {
            w.sync().unwrap();
        }
    }
    w.flush_writer().unwrap();
    let end = offs[2].0 + offs[2].1 as u64;
    let durable = if synced == 0 { start } else { offs[synced].0 };
    drop(w);
    let full = std::fs::read(&path).unwrap();
    for cut in durable..=end {
        let mut img = full.clone();
        for b in img.iter_mut().skip(cut as usize) {
            *b = 0;
        }
        let mut f = std::fs::OpenOptions::new().write(true).open(&path).unwrap();
        f.seek(SeekFrom::Start(0)).unwrap();
        f.write_all(&img).unwrap();
        drop(f);
        let want = if cut >= end { end } else if cut >= offs[2].0 { offs[2].0 } else if cut >= offs[1].0 { offs[1].0 } else { offs[0].0 };
        let r = std::panic::catch_unwind(|| Writer::<H>::open(&path, size, start).map(|w| w.write_offset()));
        match r {
            Err(_) => return Some(format!("Writer::open PANICKED after a crash that kept {cut} bytes")),
            Ok(Err(e)) => return Some(format!("Writer::open failed after a crash that kept {cut} bytes: {e}")),
            Ok(Ok(resumed)) if resumed != want => return Some(format!("crash kept {cut} bytes: recovery resumed at {resumed}, last intact record ends at {want} (fsynced up to {durable})")),
            Ok(Ok(_)) => {}
        }
        let mut w2 = Writer::<H>::open(&path, size, start).unwrap();
        let (o4, _) = w2.append(&[0x22; H], &data(n[0], 99)).unwrap();
        w2.sync().unwrap();
        let mut rd = Reader::<H>::open(&path, Some(w2.flushed_offset())).unwrap();
        if rd.read_record(o4, ReadHint::Random).is_err() {
            return Some(format!("crash kept {cut} bytes: record appended after recovery at {o4} is unreadable"));
        }
        let mut pos = start;
        let mut it = rd.iter(start);
        loop {
            match it.next_record() {
                Ok(Some(rec)) => pos = rec.offset + rec.len as u64,
                Ok(None) => break,
                Err(e) => return Some(format!("crash kept {cut} bytes: iteration over the recovered log failed: {e}")),
            }
        }
        if pos <= o4 {
            return Some(format!("crash kept {cut} bytes: iteration stops at {pos}, before the record appended after recovery at {o4}"));
        }
    }
    None
}

fn main() {
    let a: Vec<usize> = std::env::args().skip(1).map(|s| s.parse().unwrap()).collect();
    std::panic::set_hook(Box::new(|_| {}));
    let bad = if a[0] == 0 { run::<0>([a[1], a[2], a[3]], a[4] as u64, a[5]) } else { run::<1>([a[1], a[2], a[3]], a[4] as u64, a[5]) };
    match bad {
        Some(m) => {
            println!("REPRODUCED C05 crash: {m}");
            std::process::exit(1);
        }
        None => println!("not reproduced: C05 crash behaves"),
    }
}
