//! C18 native reproducer. usage: c18 <scenario> <n1> <n2> <start> <seq:0|1>
use seglog::read::{ReadHint, Reader};
use seglog::write::Writer;

fn data(n: usize, seed: u8) -> Vec<u8> {
    (0..n).map(|i| seed.wrapping_add(i as u8).wrapping_mul(31) | 1).collect()
}

fn main() {
    let a: Vec<String> = std::env::args().collect();
    let scen = a.get(1).map(String::as_str).unwrap_or("reuse");
    let n1: usize = a.get(2).and_then(|s| s.parse().ok()).unwrap_or(2);
    let n2: usize = a.get(3).and_then(|s| s.parse().ok()).unwrap_or(3);
    let start: u64 = a.get(4).and_then(|s| s.parse().ok()).unwrap_or(0);
    let seq = a.get(5).map(|s| s != "0").unwrap_or(true);
    let hint = if seq { ReadHint::Sequential } else { ReadHint::Random };
    let dir = tempfile::tempdir().unwrap();
    let path = dir.path().join("seg");
    let mut w = Writer::<1>::create(&path, 1 << 20, start).unwrap();
    let mut r = Reader::<1>::open(&path, Some(w.flushed_offset())).unwrap();
    let d1 = data(n1, 3);
    let d2 = data(n2, 77);
    let mut bad: Option<String> = None;
    match scen {
        "reuse" => {
            let (o1, _) = w.append(&[1], &d1).unwrap();
            w.sync().unwrap();
            let rec = r.read_record(o1, ReadHint::Sequential).unwrap();
            assert_eq!(&*rec.data, &d1[..]);
            let (o2, _) = w.append(&[2], &d2).unwrap();
            w.sync().unwrap();
            match r.read_record(o2, hint) {
                Ok(rec) if &*rec.data == &d2[..] && rec.header[0] == 2 => {}
                Ok(rec) => bad = Some(format!("read at {o2} returned different bytes: {:?}", rec)),
                Err(e) => bad = Some(format!("flushed record at {o2} not readable through a long-lived reader: {e}")),
            }
        }
        "reuse_oversized" => {
            // first record ends just past the 64 KiB read-ahead window and is the last flushed one when the long-lived
            // reader caches it; the next (small) record then starts inside the page-rounded tail of that oversized fill
            for lead in [65536u64 - 20, 65536 - 9, 65536 - 1] {
                let dir2 = tempfile::tempdir().unwrap();
                let p2 = dir2.path().join("seg");
                let mut w = Writer::<1>::create(&p2, 1 << 20, 0).unwrap();
                let mut r = Reader::<1>::open(&p2, Some(w.flushed_offset())).unwrap();
                // pad so that the record under test starts at `lead - 9` and crosses 65536
                let pad = (lead - 9 - 9) as usize;
                w.append(&[0], &vec![5u8; pad]).unwrap();
                let (o1, _) = w.append(&[1], &vec![6u8; 30]).unwrap();
                w.sync().unwrap();
                let mut it_off = 0u64;
                loop {
                    match r.read_record(it_off, ReadHint::Sequential) { Ok(rec) => it_off += rec.len as u64, Err(_) => break }
                }
                assert!(it_off > o1);
                let (o2, _) = w.append(&[2], &d2).unwrap();
                w.sync().unwrap();
                match r.read_record(o2, hint) {
                    Ok(rec) if &*rec.data == &d2[..] => {}
                    Ok(rec) => bad = Some(format!("read at {o2} returned different bytes: {:?}", rec.data)),
                    Err(e) => bad = Some(format!("record flushed at {o2} (inside the page-rounded tail of an oversized read-ahead fill) is not readable through the long-lived reader: {e}")),
                }
            }
        }
        "truncate" => {
            let (o1, _) = w.append(&[1], &d1).unwrap();
            let (o2, _) = w.append(&[2], &d2).unwrap();
            w.sync().unwrap();
            r.read_record(o1, ReadHint::Sequential).unwrap();
            r.read_record(o2, ReadHint::Sequential).unwrap();
            w.set_len(o2).unwrap();
            if let Ok(rec) = r.read_record(o2, hint) {
                bad = Some(format!("record at {o2} served after truncation to {o2}: {:?}", rec));
            }
        }
        "truncate_rewrite" => {
            let (o1, _) = w.append(&[1], &d1).unwrap();
            let (o2, _) = w.append(&[2], &d2).unwrap();
            w.sync().unwrap();
            r.read_record(o1, ReadHint::Sequential).unwrap();
            r.read_record(o2, ReadHint::Sequential).unwrap();
            w.set_len(o2).unwrap();
            let d3 = data(n2, 201);
            let (o3, _) = w.append(&[9], &d3).unwrap();
            w.sync().unwrap();
            match r.read_record(o3, hint) {
                Ok(rec) if &*rec.data == &d3[..] && rec.header[0] == 9 => {}
                Ok(rec) => bad = Some(format!("stale record served at {o3} after truncate+rewrite: {:?}", rec)),
                Err(e) => bad = Some(format!("record written at {o3} after truncation is unreadable: {e}")),
            }
        }
        "replace" => {
            // header replacement through a long-lived reader; run with the geometry as given and with the second
            // record's 8-byte head ending exactly at the 64 KiB read-ahead window boundary (header byte beyond it)
            for straddle in [false, true] {
                let dir2 = tempfile::tempdir().unwrap();
                let p2 = dir2.path().join("seg");
                let st = if straddle { 65536 - 8 - (9 + n1 as u64) } else { start };
                let mut w = Writer::<1>::create(&p2, 1 << 20, st).unwrap();
                let mut r = Reader::<1>::open(&p2, Some(w.flushed_offset())).unwrap();
                let (o1, _) = w.append(&[1], &d1).unwrap();
                let (o2, _) = w.append(&[2], &d2).unwrap();
                w.sync().unwrap();
                r.read_record(o1, ReadHint::Sequential).unwrap();
                for which in [o2, o1] {
                    r.replace_header(which, [0xEE]).unwrap();
                    for off in [which, if which == o1 { o2 } else { o1 }] {
                        match r.read_record(off, hint) {
                            Ok(rec) if off != which || rec.header[0] == 0xEE => {}
                            Ok(rec) => bad = Some(format!("stale header {:?} at {off} after replace_header (straddle={straddle})", rec.header)),
                            Err(e) => bad = Some(format!("record at {off} unreadable after replace_header at {which} through the same reader: {e} (window-straddling layout: {straddle})")),
                        }
                    }
                }
            }
        }
        "iterate" => {
            // two flushed records + one unsynced one; iteration from the first (seq) or second record
            let (o1, _) = w.append(&[1], &d1).unwrap();
            let (o2, _) = w.append(&[2], &d2).unwrap();
            w.sync().unwrap();
            let (o3, _) = w.append(&[3], &d1).unwrap();
            w.flush_writer().unwrap();
            let begin = if seq { o2 } else { o1 };
            let want: Vec<(u64, u8)> = if seq { vec![(o2, 2)] } else { vec![(o1, 1), (o2, 2)] };
            let mut got: Vec<(u64, u8)> = Vec::new();
            let mut it = r.iter(begin);
            for _ in 0..6 {
                match it.next_record() {
                    Ok(Some(rec)) => got.push((rec.offset, rec.header[0])),
                    Ok(None) => break,
                    Err(e) => { bad = Some(format!("iteration over flushed records failed: {e}")); break }
                }
            }
            if bad.is_none() && got != want {
                bad = Some(format!("iteration from {begin} yielded (offset, header) {:?}, flushed records are {:?} (unsynced record at {o3})", got, want));
            }
        }
        other => {
            eprintln!("unknown scenario {other}");
            std::process::exit(2);
        }
    }
    match bad {
        Some(m) => {
            println!("REPRODUCED C18 {scen}: {m}");
            std::process::exit(1);
        }
        None => println!("not reproduced: C18 {scen} behaves"),
    }
}
