//! C17 native reproducer. usage:
//!   c17 fliplen|flipbody|trunc|roundtrip <H:0|1> <n> <start> <path>      (tries every bit / cut natively for a fixed content)
//!   c17 burst <H> <n> <start> <path> <hex data> <hex header> <s> <pat>   (the solver's concrete burst)
use seglog::parse::parse_record;
use seglog::read::{ReadHint, Reader};
use seglog::write::Writer;
use std::io::{Read, Seek, SeekFrom, Write};

fn unhex(s: &str) -> Vec<u8> {
    (0..s.len() / 2).map(|i| u8::from_str_radix(&s[2 * i..2 * i + 2], 16).unwrap()).collect()
}

fn read_ok<const H: usize>(path: &std::path::Path, pathkind: &str, off: u64, flushed: u64) -> Result<bool, String> {
    let p = path.to_path_buf();
    let kind = pathkind.to_string();
    let r = std::panic::catch_unwind(move || -> bool {
        match kind.as_str() {
            "parse" => {
                let mut f = std::fs::File::open(&p).unwrap();
                let mut bytes = vec![0u8; flushed as usize];
                f.read_exact(&mut bytes).unwrap();
                parse_record::<H>(&bytes, off as usize).is_ok()
            }
            k => {
                // a reader whose flushed offset is `flushed` (file reopened: flushed = file length is too long, so truncate a copy)
                let q = p.with_extension("cut");
                std::fs::copy(&p, &q).unwrap();
                std::fs::OpenOptions::new().write(true).open(&q).unwrap().set_len(flushed).unwrap();
                let mut rd = Reader::<H>::open(&q, None).unwrap();
                if k == "iter" {
                    matches!(rd.iter(off).next_record(), Ok(Some(_)))
                } else {
                    rd.read_record(off, if k == "sequential" { ReadHint::Sequential } else { ReadHint::Random }).is_ok()
                }
            }
        }
    });
    r.map_err(|_| "the read PANICKED".to_string())
}

fn run<const H: usize>(a: &[String]) -> Option<String> {
    let scen = a[1].as_str();
    let n: usize = a[3].parse().unwrap();
    let start: u64 = a[4].parse().unwrap();
    let pathkind = a.get(5).map(String::as_str).unwrap_or("random");
    let dir = tempfile::tempdir().unwrap();
    let path = dir.path().join("seg");
    let (data, header): (Vec<u8>, Vec<u8>) = if scen == "burst" || scen == "fliplen_v" || scen == "trunc_v" {
        (unhex(&a[6])[..n].to_vec(), unhex(&a[7]))
    } else {
        ((0..n).map(|i| (i as u8).wrapping_mul(37) | 1).collect(), vec![0xA5; H])
    };
    let hdr: [u8; H] = header[..H].try_into().unwrap();
    let mut w = Writer::<H>::create(&path, 4096, start).unwrap();
    let (o, l) = w.append(&hdr, &data).unwrap();
    let (_o2, l2) = w.append(&hdr, &data).unwrap();
    w.sync().unwrap();
    drop(w);
    let flushed = o + (l + l2) as u64;
    let orig = std::fs::read(&path).unwrap();
    let put = |bytes: &[u8]| {
        let mut f = std::fs::OpenOptions::new().write(true).open(&path).unwrap();
        f.seek(SeekFrom::Start(0)).unwrap();
        f.write_all(bytes).unwrap();
    };
    match scen {
        "roundtrip" => match read_ok::<H>(&path, pathkind, o, flushed) {
            Ok(true) => None,
            Ok(false) => Some("intact record rejected".into()),
            Err(e) => Some(e),
        },
        "fliplen" | "flipbody" => {
            let (lo, hi) = if scen == "fliplen" { (0, 32) } else { (32, 8 * l) };
            for bit in lo..hi {
                let mut b = orig.clone();
                b[o as usize + bit / 8] ^= 1 << (bit % 8);
                put(&b);
                match read_ok::<H>(&path, pathkind, o, flushed) {
                    Ok(false) => {}
                    Ok(true) => return Some(format!("record with bit {bit} flipped returned as valid ({pathkind})")),
                    Err(e) => return Some(format!("record with bit {bit} of the length field flipped: {e} ({pathkind}) instead of an error")),
                }
            }
            None
        }
        "trunc" => {
            for vis in o..o + l as u64 {
                match read_ok::<H>(&path, pathkind, o, vis) {
                    Ok(false) => {}
                    Ok(true) => return Some(format!("record visible only up to {vis} returned as valid ({pathkind})")),
                    Err(e) => return Some(format!("cut at {vis}: {e}")),
                }
            }
            None
        }
        // the solver's concrete record contents + flipped length bit
        "fliplen_v" => {
            let bit: usize = a[8].parse().unwrap();
            let mut b = orig.clone();
            b[o as usize + bit / 8] ^= 1 << (bit % 8);
            put(&b);
            match read_ok::<H>(&path, pathkind, o, flushed) {
                Ok(false) => None,
                Ok(true) => Some(format!("record whose length field had bit {bit} flipped is returned as VALID data ({pathkind}): the CRC over the shorter byte range collides for these contents")),
                Err(e) => Some(e),
            }
        }
        // the solver's concrete record contents + cut position: everything of the record from `vis` on is zeros
        "trunc_v" => {
            let vis: u64 = a[8].parse().unwrap();
            let mut b = orig.clone();
            let mut changed = false;
            for i in (vis as usize)..(o as usize + l) {
                if b[i] != 0 { changed = true; }
                b[i] = 0;
            }
            if !changed { return None; }
            put(&b);
            match read_ok::<H>(&path, pathkind, o, flushed) {
                Ok(false) => None,
                Ok(true) => Some(format!("record whose bytes from offset {vis} on were lost (zeros) is returned as VALID data ({pathkind}): CRC-32 collision for these contents")),
                Err(e) => Some(e),
            }
        }
        "burst" => {
            let s: usize = a[8].parse().unwrap();
            let pat: u32 = a[9].parse().unwrap();
            let v = (pat as u64) << (s % 8);
            let mut b = orig.clone();
            for i in 4..l {
                let j = i.wrapping_sub(s / 8);
                if j < 5 {
                    b[o as usize + i] ^= (v >> (8 * j)) as u8;
                }
            }
            if b == orig {
                return None;
            }
            put(&b);
            match read_ok::<H>(&path, pathkind, o, flushed) {
                Ok(false) => None,
                Ok(true) => Some(format!("burst error (start bit {s}, pattern {pat:#010x}, {} bits flipped) straddling crc/header returned as VALID data ({pathkind})", (b.iter().zip(&orig).map(|(x, y)| (x ^ y).count_ones()).sum::<u32>()))),
                Err(e) => Some(e),
            }
        }
        _ => std::process::exit(2),
    }
}

fn main() {
    let a: Vec<String> = std::env::args().collect();
    let h: usize = a[2].parse().unwrap();
    std::panic::set_hook(Box::new(|_| {}));
    let bad = if h == 0 { run::<0>(&a) } else { run::<1>(&a) };
    match bad {
        Some(m) => {
            println!("REPRODUCED C17 {}: {m}", a[1]);
            std::process::exit(1);
        }
        None => println!("not reproduced: C17 {} behaves", a[1]),
    }
}
