//! C01-K1 native reproducer. usage: c01 rollback <n1> <n2> <n3> <start> <sync_before:0|1> <rollback_two:0|1>
use seglog::read::{ReadHint, Reader};
use seglog::write::Writer;

fn data(n: usize, seed: u8) -> Vec<u8> {
    (0..n).map(|i| seed.wrapping_add(i as u8).wrapping_mul(31) | 1).collect()
}

/// plain append sequences (no rollback) with record sizes below, at and above the 16 KiB write buffer; every record
/// must read back byte-identical at its returned offset through a fresh reader after sync
fn sequences() -> Option<String> {
    for sizes in [vec![10usize, 20, 30], vec![20_000, 28, 20_000], vec![16_375, 1, 16_384, 5], vec![0, 40_000, 0, 3], vec![100, 16_384 - 9, 100]] {
        for sync_each in [false, true] {
            let dir = tempfile::tempdir().unwrap();
            let path = dir.path().join("seg");
            let mut w = Writer::<1>::create(&path, 1 << 20, 7).unwrap();
            let mut recs = vec![];
            for (i, n) in sizes.iter().enumerate() {
                let d = data(*n, 17 + i as u8);
                let (o, _) = w.append(&[i as u8], &d).unwrap();
                recs.push((o, d));
                if sync_each { w.sync().unwrap(); }
            }
            w.sync().unwrap();
            let mut r = Reader::<1>::open(&path, Some(w.flushed_offset())).unwrap();
            for (i, (o, d)) in recs.iter().enumerate() {
                match r.read_record(*o, ReadHint::Random) {
                    Ok(rec) if &*rec.data == &d[..] && rec.header[0] == i as u8 => {}
                    other => return Some(format!("append sequence {sizes:?} (sync after each: {sync_each}): record {i} acknowledged at offset {o} reads back as {:?}", other.map(|r| r.data.len()))),
                }
            }
        }
    }
    None
}

fn main() {
    let a: Vec<String> = std::env::args().collect();
    if a.get(1).map(String::as_str) == Some("sequence") {
        std::panic::set_hook(Box::new(|_| {}));
        match sequences() {
            Some(m) => { println!("REPRODUCED C01 sequence: {m}"); std::process::exit(1); }
            None => { println!("not reproduced: C01 sequence behaves"); return; }
        }
    }
    let g = |i: usize, d: u64| a.get(i).and_then(|s| s.parse::<u64>().ok()).unwrap_or(d);
    let (n1, n2, n3, start) = (g(2, 2) as usize, g(3, 3) as usize, g(4, 1) as usize, g(5, 0));
    let (sync_before, rollback_two) = (g(6, 1) != 0, g(7, 0) != 0);
    let dir = tempfile::tempdir().unwrap();
    let path = dir.path().join("seg");
    let mut w = Writer::<1>::create(&path, 1 << 20, start).unwrap();
    let (d1, d2, d3) = (data(n1, 3), data(n2, 77), data(n3, 201));
    let (o1, _) = w.append(&[1], &d1).unwrap();
    if sync_before {
        w.sync().unwrap();
    }
    let (o2, _) = w.append(&[2], &d2).unwrap();
    if rollback_two {
        w.append(&[3], &d3).unwrap();
    }
    w.set_len(o2).unwrap();
    let (o3, _) = w.append(&[3], &d3).unwrap();
    w.sync().unwrap();
    let mut r = Reader::<1>::open(&path, Some(w.flushed_offset())).unwrap();
    let mut bad = None;
    match r.read_record(o1, ReadHint::Random) {
        Ok(rec) if &*rec.data == &d1[..] => {}
        other => bad = Some(format!("record A at {o1}: {:?}", other.map(|r| r.data.to_vec()))),
    }
    match r.read_record(o3, ReadHint::Random) {
        Ok(rec) if &*rec.data == &d3[..] && rec.header[0] == 3 => {}
        other => bad = Some(format!("record appended after rollback, acknowledged at offset {o3}, reads back as {:?}", other.map(|r| r.data.to_vec()))),
    }
    match bad {
        Some(m) => {
            println!("REPRODUCED C01 rollback: {m}");
            std::process::exit(1);
        }
        None => println!("not reproduced: C01 rollback behaves"),
    }
}
