#!/usr/bin/env python3
"""Regenerate /verif/MANIFEST.json from engine/manifest_data.py and validate it.

    python3 engine/mkmanifest.py
"""
import json
import sys
from pathlib import Path

sys.path.insert(0, str(Path(__file__).resolve().parent.parent))
from engine import manifest_data as md  # noqa: E402

VERIF = Path(__file__).resolve().parent.parent


def build():
    checks = []
    for pid in sorted(md.CHECKS):
        c = md.CHECKS[pid]
        checks.append({
            "property_id": pid,
            "quick_cmd": f"./check {pid} --tier quick",
            "thorough_cmd": f"./check {pid} --tier thorough",
            "evidence_file": f"/verif/evidence/{pid}.json",
            "replay_cmd_template": f"./check {pid} --replay {{path}}",
            "engine": "kani-cbmc",
            "level_claimed": {
                "category": "model_checking",
                "text": c["text"],
                "design_ref": c.get("design_ref", f"DESIGN.md §3 {pid}"),
            },
            "level_note": c["note"],
            "technique": c["technique"],
        })
    na = [{"property_id": p, "reason": r} for p, r in sorted(md.NOT_APPLICABLE.items())]
    claimed = {c["property_id"] for c in checks}
    props = [json.loads(l)["id"] for l in (VERIF / "properties.jsonl").read_text().splitlines() if l.strip()]
    for p in props:
        assert (p in claimed) != (p in md.NOT_APPLICABLE), f"{p} must be exactly one of claimed / not_applicable"
    m = {
        "version": 1,
        "setup_cmd": "./check --setup",
        "hooks": md.HOOKS,
        "engines": [
            {"name": "kani-cbmc", "path": "/verif/engine",
             "serves_properties": sorted(claimed),
             "kind_free_text": "bounded model checking of the real Rust source: kani-compiler 0.68 -> goto program -> CBMC 6.11 "
                               "(unwinding assertions on) -> cadical; harness crates are regenerated from /repo's working tree on "
                               "every run (path deps, whole-crate overlays with appended #[cfg(kani)] modules, verbatim item slices "
                               "into mock contexts); counterexamples are replayed natively before a VIOLATION is printed"},
        ],
        "checks": checks,
        "not_applicable": na,
        "notes": md.NOTES,
    }
    return m


def main():
    m = build()
    out = VERIF / "MANIFEST.json"
    out.write_text(json.dumps(m, indent=1) + "\n")
    try:
        import jsonschema
        schema = json.loads(Path("/root/.vp/MANIFEST.schema.json").read_text())
        jsonschema.validate(m, schema)
        print("MANIFEST.json written and valid:", len(m["checks"]), "checks,", len(m["not_applicable"]), "not applicable")
    except ImportError:
        print("MANIFEST.json written (jsonschema not importable here; not validated)")


if __name__ == "__main__":
    main()
