"""Shared unit generators (overlays of whole /repo crates with appended #[cfg(kani)] harness modules)."""
from __future__ import annotations

import re
from pathlib import Path

from . import gen
from .core import REPO, VERIF, Inconclusive


def _ws_dep_versions():
    """workspace.dependencies versions from /repo/Cargo.toml (simple `name = "ver"` entries)."""
    txt = (REPO / "Cargo.toml").read_text()
    out = {}
    for m in re.finditer(r'(?m)^([A-Za-z0-9_-]+)\s*=\s*"([^"]+)"\s*$', txt):
        out[m.group(1)] = m.group(2)
    return out


SEGLOG_SCALE = {
    # name: (file, original text, scaled text)
    "PAGE_SIZE": ("src/read.rs", "const PAGE_SIZE: usize = 4096;", "const PAGE_SIZE: usize = 8;"),
    "OPTIMISTIC_DATA_SIZE": ("src/read.rs", "const OPTIMISTIC_DATA_SIZE: usize = 2048;", "const OPTIMISTIC_DATA_SIZE: usize = 4;"),
    "READ_AHEAD_SIZE": ("src/read.rs", "const READ_AHEAD_SIZE: usize = 64 * 1024;", "const READ_AHEAD_SIZE: usize = 32;"),
    "WRITE_BUF_SIZE": ("src/write.rs", "const WRITE_BUF_SIZE: usize = 16 * 1024;", "const WRITE_BUF_SIZE: usize = 16;"),
    "MIN_COMPRESSION_SIZE": ("src/lib.rs", "pub const MIN_COMPRESSION_SIZE: usize = 128;", "pub const MIN_COMPRESSION_SIZE: usize = 2;"),
}


def seglog_overlay(d: Path, harness_rel: list, scale: dict | None = None, consts: dict | None = None):
    """Copy /repo/crates/seglog to d/seglog, make it stand alone, scale buffer constants, append
    the harness files (paths relative to /verif/harness) as an in-crate #[cfg(kani)] module.

    `scale` overrides scaled values: {"PAGE_SIZE": 8, ...}.  `consts` are `pub const NAME: usize = v;`
    lines injected at the top of the harness module (shape parameters)."""
    rewrites = []
    crate = d / "seglog"
    gen.copy_tree(REPO / "crates/seglog", crate)
    v = _ws_dep_versions()
    (crate / "Cargo.toml").write_text(f"""[package]
name = "seglog"
version = "0.0.0"
edition = "2024"

[dependencies]
crc32fast = "{v.get('crc32fast', '1.5')}"
thiserror = "{v.get('thiserror', '2.0')}"
tracing = {{ path = "{gen.mock('tracing')}" }}
zstd = {{ path = "{gen.mock('zstd')}" }}

[workspace]

[lints.rust]
unexpected_cfgs = {{ level = "allow" }}

[profile.dev]
debug = 0
""")
    rewrites.append("overlay: whole crate seglog copied verbatim; Cargo.toml made stand-alone; `tracing` -> empty-macro mock; "
                    "`zstd` -> nondeterministic mock (arbitrary compressed bytes, bounded expansion); `nix` dropped")
    import shutil
    shutil.copy(REPO / "Cargo.lock", crate / "Cargo.lock")

    files = {p: (crate / p).read_text() for p in ("src/lib.rs", "src/read.rs", "src/write.rs", "src/parse.rs")}
    for p in files:
        files[p] = gen.strip_test_mods(files[p])
    sc = dict(scale or {})
    for name, (f, old, new) in SEGLOG_SCALE.items():
        if name in sc:
            new = re.sub(r"= [^;]+;", f"= {sc[name]};", new)
        files[f] = gen.rewrite_once(files[f], old, new, f"scale: {old.strip()} -> {new.strip()}", rewrites)
    # nix is linux-only plumbing (fallocate / posix_fadvise / Errno variant): remove under kani
    files["src/write.rs"] = gen.rewrite_once(
        files["src/write.rs"], '    #[cfg(target_os = "linux")]\n    #[error(transparent)]\n    Nix(#[from] nix::errno::Errno),\n', "",
        "drop: WriteError::Nix variant (nix crate not linked)", rewrites)
    files["src/write.rs"] = gen.rewrite_once(
        files["src/write.rs"], '#[cfg(target_os = "linux")]\n        {\n            nix::fcntl::fallocate',
        '#[cfg(any())]\n        {\n            nix::fcntl::fallocate',
        "drop: fallocate in Writer::create (preallocation is modelled by the zero-filled disk)", rewrites)
    files["src/read.rs"] = gen.rewrite_once(
        files["src/read.rs"], '#[cfg(all(unix, target_os = "linux"))]\n        {\n            use std::os::fd::AsRawFd;',
        '#[cfg(any())]\n        {\n            use std::os::fd::AsRawFd;',
        "drop: posix_fadvise in Reader::prefetch (a hint, no semantics)", rewrites)
    files["src/read.rs"] = gen.rewrite_once(
        files["src/read.rs"], "let len = file.metadata()?.len();", "let len = crate::verif::fmodel::file_len(&file);",
        "rewrite: file.metadata()?.len() -> file-model length (Metadata cannot be constructed)", rewrites)

    # io::Error's drop glue recurses through Box<dyn Error> (CBMC explores every implementor to the unwind depth and
    # explodes). The error *payload* is irrelevant to every property checked on this crate, so the Io variants carry a
    # unit type instead and the conversion forgets the io::Error (recorded rewrite).
    for f, ty in (("src/read.rs", "ReadError"), ("src/write.rs", "WriteError")):
        files[f] = gen.rewrite_once(files[f], "    #[error(transparent)]\n    Io(#[from] io::Error),\n",
                                    '    #[error("io")]\n    Io(crate::verif::VIo),\n',
                                    f"rewrite: {ty}::Io(io::Error) -> {ty}::Io(VIo) unit payload (avoids recursive dyn-Error drop glue)", rewrites)
        files[f] += f"""
#[cfg(kani)]
impl From<io::Error> for {ty} {{
    fn from(e: io::Error) -> Self {{ std::mem::forget(e); {ty}::Io(crate::verif::VIo) }}
}}
"""
    cl = "#[derive(Debug)]\npub struct VIo;\n" + "".join(f"pub const {k}: usize = {val};\n" for k, val in (consts or {}).items() if isinstance(val, int))
    # no helper constructors: harnesses build Writer/Reader through the real create()/open() (OpenOptions::open is stubbed),
    # so a refactoring of private fields cannot break the harness
    files["src/lib.rs"] += """
#[cfg(kani)]
#[allow(unused, dead_code, static_mut_refs, unused_imports)]
pub(crate) mod verif {
""" + cl + "".join(f'    include!("verif_{i}.rs");\n' for i, h in enumerate(harness_rel)) + "}\n"
    for i, h in enumerate(harness_rel):
        txt = (VERIF / "harness" / h).read_text()
        for k, val in (consts or {}).items():
            txt = txt.replace(f"@{k}@", str(val))
        left = re.findall(r"@[A-Z_0-9]+@", txt)
        if left:
            raise Inconclusive(f"harness template {h}: unfilled placeholders {sorted(set(left))}")
        (crate / "src" / f"verif_{i}.rs").write_text(txt)
    rewrites.append("append: #[cfg(kani)] mod verif { " + ", ".join(harness_rel) + " } (Writer/Reader are built through the real create()/open(); "
                    "std::fs::OpenOptions::open is stubbed to return the modelled file)")
    for p, s in files.items():
        (crate / p).write_text(s)
    return {"rewrites": rewrites, "harness_file": None}
