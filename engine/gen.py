"""Generation helpers: verbatim item slicing, crate overlays, exact-once rewrites.

Everything here *fails closed*: a pattern that does not match exactly as
expected raises Inconclusive (exit 2), never a violation.
"""
from __future__ import annotations

import os
import re
import shutil
import subprocess
from pathlib import Path

from .core import REPO, VERIF, Inconclusive


# --------------------------------------------------------------------------- tokenizer-aware scanning


def _skip_map(src: str):
    """Return a bytearray mask: 1 where the char is inside a comment / string / char literal."""
    n = len(src)
    mask = bytearray(n)
    i = 0
    while i < n:
        c = src[i]
        if c == "/" and i + 1 < n and src[i + 1] == "/":
            j = src.find("\n", i)
            j = n if j < 0 else j
            for k in range(i, j):
                mask[k] = 1
            i = j
        elif c == "/" and i + 1 < n and src[i + 1] == "*":
            depth, j = 1, i + 2
            while j < n and depth:
                if src.startswith("/*", j):
                    depth += 1
                    j += 2
                elif src.startswith("*/", j):
                    depth -= 1
                    j += 2
                else:
                    j += 1
            for k in range(i, j):
                mask[k] = 1
            i = j
        elif c == '"' or (c == "r" and re.match(r'r#*"', src[i:i + 8]) and (i == 0 or not (src[i - 1].isalnum() or src[i - 1] == "_"))) \
                or (c == "b" and i + 1 < n and src[i + 1] == '"' and (i == 0 or not (src[i - 1].isalnum() or src[i - 1] == "_"))):
            if c == "b":
                i += 1
                c = '"'
                mask[i - 1] = 1
            if c == "r":
                m = re.match(r'r(#*)"', src[i:])
                hashes = m.group(1)
                end = src.find('"' + hashes, i + len(m.group(0)))
                j = n if end < 0 else end + 1 + len(hashes)
            else:
                j = i + 1
                while j < n:
                    if src[j] == "\\":
                        j += 2
                        continue
                    if src[j] == '"':
                        j += 1
                        break
                    j += 1
            for k in range(i, min(j, n)):
                mask[k] = 1
            i = j
        elif c == "'":
            # char literal or lifetime
            m = re.match(r"'(\\.[^']*|[^'\\])'", src[i:i + 12])
            if m:
                for k in range(i, i + len(m.group(0))):
                    mask[k] = 1
                i += len(m.group(0))
            else:
                i += 1
        else:
            i += 1
    return mask


def find_item(src: str, header_re: str, which: int = 0, expect_unique: bool = True):
    """Locate an item whose header (e.g. r'fn\\s+distribute_partition\\b', r'impl\\s+ExpectedVersion\\b')
    matches at item position.  Returns (start, end) including leading attributes/doc comments."""
    mask = _skip_map(src)
    pat = re.compile(r"(?m)^[ \t]*(?:pub(?:\([^)]*\))?\s+)?(?:default\s+)?(?:const\s+)?(?:async\s+)?(?:unsafe\s+)?(?:extern\s+\"C\"\s+)?" + header_re)
    hits = [m for m in pat.finditer(src) if not mask[m.start() + (len(m.group(0)) - len(m.group(0).lstrip()))]]
    if not hits:
        raise Inconclusive(f"slice: item /{header_re}/ not found")
    if expect_unique and len(hits) != 1:
        raise Inconclusive(f"slice: item /{header_re}/ matched {len(hits)} times (expected 1)")
    m = hits[which]
    start = m.start()
    # extend backwards over attributes and doc comments
    lines_before = src[:start].split("\n")
    # lines_before[-1] is '' (start is at line start)
    idx = len(lines_before) - 2
    in_attr_tail = False
    while idx >= 0:
        s = lines_before[idx].strip()
        if in_attr_tail:
            if s.startswith("#["):
                in_attr_tail = False
            idx -= 1
            continue
        if s.startswith("///") or s.startswith("#["):
            idx -= 1
            continue
        if s.endswith(")]") or s == "]":
            in_attr_tail = True
            idx -= 1
            continue
        break
    start = len("\n".join(lines_before[: idx + 1])) + (1 if idx + 1 > 0 else 0)
    # scan forward to the first '{' or ';' at paren/bracket depth 0
    i = m.end()
    n = len(src)
    par = 0
    while i < n:
        if mask[i]:
            i += 1
            continue
        c = src[i]
        if c in "([":
            par += 1
        elif c in ")]":
            par -= 1
        elif c == ";" and par == 0:
            return start, i + 1
        elif c == "{" and par == 0:
            break
        i += 1
    if i >= n:
        raise Inconclusive(f"slice: item /{header_re}/ has no body")
    depth = 0
    while i < n:
        if not mask[i]:
            if src[i] == "{":
                depth += 1
            elif src[i] == "}":
                depth -= 1
                if depth == 0:
                    end = i + 1
                    # tuple-struct style `struct X {..}` has no trailing ';'
                    return start, end
        i += 1
    raise Inconclusive(f"slice: unbalanced braces in /{header_re}/")


def slice_item(path: Path, header_re: str, which: int = 0, expect_unique: bool = True) -> str:
    src = Path(path).read_text()
    s, e = find_item(src, header_re, which, expect_unique)
    return src[s:e]


def slice_items(path: Path, headers: list) -> str:
    src = Path(path).read_text()
    out = []
    for h in headers:
        which, uniq = 0, True
        if isinstance(h, tuple):
            h, which = h
            uniq = False
        s, e = find_item(src, h, which, uniq)
        out.append(src[s:e])
    return "\n\n".join(out) + "\n"


def inner_of(item_text: str) -> str:
    """Body of a brace item (e.g. the methods inside an impl block)."""
    a = item_text.index("{")
    b = item_text.rindex("}")
    return item_text[a + 1:b]


def strip_test_mods(src: str) -> str:
    """Remove `#[cfg(test)] mod xxx { ... }` blocks (they need dev-dependencies)."""
    while True:
        m = re.search(r"(?m)^[ \t]*#\[cfg\(test\)\]\s*\n[ \t]*(?:pub\s+)?mod\s+\w+\s*\{", src)
        if not m:
            return src
        mask = _skip_map(src)
        i = m.end() - 1
        depth = 0
        n = len(src)
        while i < n:
            if not mask[i]:
                if src[i] == "{":
                    depth += 1
                elif src[i] == "}":
                    depth -= 1
                    if depth == 0:
                        break
            i += 1
        src = src[:m.start()] + src[i + 1:]


def rewrite_once(src: str, old: str, new: str, what: str, rewrites: list, count: int = 1) -> str:
    n = src.count(old)
    if n != count:
        raise Inconclusive(f"rewrite '{what}': pattern {old!r} occurs {n} times (expected {count})")
    rewrites.append(what)
    return src.replace(old, new)


def rewrite_re(src: str, pat: str, new: str, what: str, rewrites: list, count: int = 1) -> str:
    res, n = re.subn(pat, new, src)
    if n != count:
        raise Inconclusive(f"rewrite '{what}': regex {pat!r} matched {n} times (expected {count})")
    rewrites.append(what)
    return res


# --------------------------------------------------------------------------- crates


def write_crate(d: Path, name: str, deps: str, lib_rs: str, extra_files: dict | None = None, features: str = ""):
    (d / "src").mkdir(parents=True, exist_ok=True)
    (d / "Cargo.toml").write_text(f"""[package]
name = "{name}"
version = "0.0.0"
edition = "2024"

[lib]
path = "src/lib.rs"

[dependencies]
{deps}
{features}
[workspace]

[lints.rust]
unexpected_cfgs = {{ level = "allow" }}

[profile.dev]
debug = 0
""")
    (d / "src" / "lib.rs").write_text(lib_rs)
    for rel, text in (extra_files or {}).items():
        p = d / rel
        p.parent.mkdir(parents=True, exist_ok=True)
        p.write_text(text)
    lock = REPO / "Cargo.lock"
    if lock.exists():
        shutil.copy(lock, d / "Cargo.lock")


def copy_tree(src: Path, dst: Path):
    """rsync -a keeps mtimes so cargo does not rebuild unchanged files."""
    dst.mkdir(parents=True, exist_ok=True)
    subprocess.run(["rsync", "-a", "--delete", "--exclude", "target", "--exclude", "benches",
                    str(src) + "/", str(dst) + "/"], check=True)


def mock(name: str) -> str:
    return str(VERIF / "mocks" / name)


def harness_text(rel: str) -> str:
    return (VERIF / "harness" / rel).read_text()


def slice_between(path, start_marker: str, end_marker: str) -> str:
    """Verbatim statement range of a file: from the line containing start_marker through the line containing
    end_marker (each must occur exactly once, in that order). For logic that sits inline inside a large async fn."""
    src = Path(path).read_text()
    if src.count(start_marker) != 1 or src.count(end_marker) != 1:
        raise Inconclusive(f"slice_between: markers occur {src.count(start_marker)}/{src.count(end_marker)} times in {path} (expected 1/1)")
    a = src.index(start_marker)
    b = src.index(end_marker)
    if b < a:
        raise Inconclusive("slice_between: end marker before start marker")
    a = src.rfind("\n", 0, a) + 1
    b = src.find("\n", b)
    return src[a:b] + "\n"


def slice_between_text(src: str, start_marker: str, end_marker: str, include_end: bool = True, what: str = "") -> str:
    """Like slice_between, on a text that was itself sliced (e.g. one fn item): whole lines from the line containing
    start_marker to the line containing end_marker (or up to, excluding, that line)."""
    if src.count(start_marker) != 1 or src.count(end_marker) != 1:
        raise Inconclusive(f"slice_between_text({what}): markers occur {src.count(start_marker)}/{src.count(end_marker)} times (expected 1/1)")
    a = src.index(start_marker)
    b = src.index(end_marker)
    if b < a:
        raise Inconclusive(f"slice_between_text({what}): end marker before start marker")
    a = src.rfind("\n", 0, a) + 1
    if include_end:
        b = src.find("\n", b)
        b = len(src) if b < 0 else b
    else:
        b = src.rfind("\n", 0, b)
    return src[a:b] + "\n"
