#!/usr/bin/env python3
"""./check <ID> [--tier quick|thorough] [--only harness,...] [--keep]
   ./check --setup          build dependency caches for every unit
   ./check <ID> --replay <path>   show / re-run a recorded counterexample
"""
from __future__ import annotations

import argparse
import hashlib
import importlib
import json
import os
import shutil
import sys
import time
import traceback
from pathlib import Path

sys.path.insert(0, str(Path(__file__).resolve().parent.parent))
from engine import core  # noqa: E402
from engine.core import Inconclusive, log  # noqa: E402


def load_spec(prop: str, tier: str, seed: int):
    mod = importlib.import_module(f"props.{prop}")
    return mod.spec(tier, seed)


def all_props():
    return sorted(p.stem for p in (core.VERIF / "props").glob("C*.py"))


def write_evidence(prop, tier, seed, wall, cov, assumptions, violations):
    core.EVIDENCE.mkdir(parents=True, exist_ok=True)
    ev = {
        "property_id": prop,
        "tier": tier,
        "seed": seed,
        "level": "model_checking",
        "coverage": cov,
        "assumptions": assumptions,
        "wall_s": round(wall, 2),
        "violations": violations,
    }
    (core.EVIDENCE / f"{prop}.json").write_text(json.dumps(ev, indent=1) + "\n")


def do_check(prop: str, tier: str, seed: int, only, keep: bool) -> int:
    t0 = time.time()
    spec = load_spec(prop, tier, seed)
    known = core.load_known(prop)
    workroot = core.SCRATCH / f"{prop}"
    if workroot.exists():
        shutil.rmtree(workroot)
    workroot.mkdir(parents=True)

    inconclusive = []   # strings
    violations = []     # dicts
    known_hits = {}     # id -> text
    samples = []
    functions = set()
    bounds = []
    rewrites = []
    per_harness = []
    n_queries = 0
    n_nontrivial = 0
    solver_s = 0.0
    vccs = 0
    checks_total = 0
    unit_infos = {}

    try:
        for unit in spec.units:
            try:
                info, results, out = core.run_unit(unit, tier, seed, workroot, only)
            except Inconclusive as e:
                inconclusive.append(f"unit {unit.name}: {e}")
                continue
            unit_infos[unit.name] = info
            rewrites += info.get("rewrites", [])
            hmap = {h.name: h for h in unit.harnesses}
            expected = [h.name for h in unit.harnesses if (tier in h.tiers or h.name in info.get("seed_rotated_extras", [])) and (not only or h.name in only)
                        and not (tier == "quick" and h.quick_seed_slot is not None and seed % h.quick_seed_slot[1] != h.quick_seed_slot[0])]
            for nm in expected:
                if nm not in results:
                    inconclusive.append(f"{nm}: no result returned by the runner")
            for name, r in results.items():
                h = hmap[name]
                n_queries += 1
                solver_s += r.solver_s
                vccs += r.vccs
                checks_total += r.checks_total
                functions.update(h.encodes)
                if h.bounds:
                    bounds.append(f"{name}: {h.bounds}")
                rec = {"harness": name, "unit": unit.name, "status": r.status,
                       "checks": r.checks_total, "vccs": r.vccs, "solver_s": round(r.solver_s, 3),
                       "symex_s": round(r.symex_s, 3), "wall_s": round(r.wall_s, 2),
                       "covers": f"{r.covers_sat}/{r.covers_total}", "obligation": h.obligation}
                per_harness.append(rec)
                log(f"[{prop}] {unit.name}::{name}: {r.status} checks={r.checks_total} "
                    f"covers={r.covers_sat}/{r.covers_total} wall={r.wall_s:.1f}s")
                if r.status in ("timeout", "error", "missing"):
                    inconclusive.append(f"{name}: {r.status} {r.detail[:2000]}")
                    continue
                if r.unwind_failures:
                    inconclusive.append(f"{name}: {r.unwind_failures} unwinding assertion(s) failed — bound too small for this tree")
                if h.expect_fail:
                    # vacuity twin: must fail, and only with its witness assertion
                    wit = [f for f in r.failures if "vacuity witness" in f.description]
                    if r.status == "success" or not wit:
                        inconclusive.append(f"{name}: vacuity witness not reached (harness is vacuous)")
                    else:
                        n_nontrivial += 1
                    continue
                if r.covers_unsat:
                    inconclusive.append(f"{name}: cover witness(es) not satisfied: {r.covers_unsat[:3]}")
                elif r.status == "success":
                    n_nontrivial += 1
                if r.status == "failed" and r.failures:
                    unknown = []
                    for f in r.failures:
                        e = core.match_known(f, known)
                        if e is not None:
                            known_hits[e["id"]] = e["what"]
                            rec.setdefault("known_findings", []).append(e["id"])
                        else:
                            unknown.append(f)
                    if not unknown and not r.covers_unsat:
                        n_nontrivial += 1
                    if unknown:
                        violations.append({"unit": unit, "harness": h, "failures": unknown,
                                           "gen_dir": workroot / unit.name, "info": info})
                samples.append({"harness": name, "obligation": h.obligation, "verdict": r.status,
                                "bounds": h.bounds})

        if spec.extra is not None:
            try:
                for sub in spec.extra({"tier": tier, "seed": seed, "workroot": workroot}):
                    n_queries += sub.get("queries", 1)
                    solver_s += sub.get("solver_s", 0.0)
                    per_harness.append(sub)
                    samples.append({"harness": sub["harness"], "obligation": sub.get("obligation", ""),
                                    "verdict": sub["status"]})
                    if sub["status"] == "success":
                        n_nontrivial += 1
                    elif sub["status"] == "failed":
                        fl = core.CheckFailure(sub["harness"], sub.get("function", ""), sub.get("description", ""), "", "", "smt")
                        e = core.match_known(fl, known)
                        if e is not None:
                            known_hits[e["id"]] = e["what"]
                        else:
                            violations.append({"unit": None, "harness": None, "sub": sub, "failures": [fl]})
                    else:
                        inconclusive.append(f"{sub['harness']}: {sub['status']} {sub.get('detail','')[:500]}")
            except Inconclusive as e:
                inconclusive.append(f"extra: {e}")

        # ---- replay every candidate violation before reporting it
        reported = []
        for v in violations:
            rp = replay_violation(prop, spec, v, workroot)
            if rp["reproduced"] is False:
                inconclusive.append(f"{rp['harness']}: solver counterexample did NOT reproduce natively "
                                    f"({rp['detail']}); encoding/stub suspected — not reported as violation")
                continue
            reported.append(rp)
    finally:
        if not keep:
            shutil.rmtree(workroot, ignore_errors=True)

    wall = time.time() - t0
    for kid, what in sorted(known_hits.items()):
        print(f"KNOWN-FINDING: property={prop} {kid}: {what}")
    for rp in reported:
        print(f"VIOLATION property={prop} replay={rp['path']}")
        for f in rp["failed_checks"][:6]:
            print(f"  failed: {f['description']} in {f['function']} ({f['file']}:{f['line']}) [harness {rp['harness']}]")
    for s in inconclusive:
        print(f"INCONCLUSIVE property={prop} {s}")

    cov = {
        "evaluations": n_queries,
        "distinct_nontrivial": n_nontrivial,
        "rule": "one evaluation = one solver query (a Kani/CBMC proof harness, or an SMT-LIB query) over the code compiled "
                "from /repo's working tree; non-trivial = the query was decided (UNSAT, or SAT only on listed known findings), "
                "all unwinding assertions passed and every kani::cover! witness in it was SATISFIED (or, for a vacuity twin, its "
                "assert(false) was reached). Harness names are distinct by construction.",
        "samples": samples[:40] or [{"note": "no harness ran"}],
        "exhaustive": False,
        "functions_encoded": sorted(functions),
        "bounds": bounds,
        "rewrites_and_stubs": rewrites,
        "seed_rotated_extra_harnesses": sorted(x for i in unit_infos.values() for x in i.get("seed_rotated_extras", [])),
        "harnesses": per_harness,
        "solver_s": round(solver_s, 3),
        "vccs_generated": vccs,
        "cbmc_checks": checks_total,
        "outside_claim": spec.outside_claim,
        "trusted_base": spec.trusted_base,
        "known_findings_hit": sorted(known_hits),
        "inconclusive": inconclusive,
        "engine": "kani 0.68.0 / CBMC 6.11.0 / cadical (unwinding assertions on)",
    }
    write_evidence(prop, tier, seed, wall, cov, spec.assumptions, len(reported))
    if reported:
        return 1
    if inconclusive:
        return 2
    print(f"OK property={prop} tier={tier} queries={n_queries} nontrivial={n_nontrivial} solver_s={solver_s:.1f} wall_s={wall:.0f}")
    return 0


def replay_violation(prop, spec, v, workroot):
    core.REPLAYS.mkdir(parents=True, exist_ok=True)
    fails = [dataclass_dict(f) for f in v["failures"]]
    hname = v["harness"].name if v.get("harness") else v["sub"]["harness"]
    rp = {"property": prop, "harness": hname, "failed_checks": fails, "reproduced": None,
          "detail": "", "tests": [], "native": None}
    unit = v.get("unit")
    if unit is not None:
        gen_dir = v["gen_dir"]
        crate_dir = gen_dir / unit.crate_subdir
        try:
            do_pb = v["harness"].playback and unit.playback
            if do_pb or v["harness"].want_values:
                cp = core.concrete_playback(unit, crate_dir, hname, workroot)
                rp["tests"] = cp["tests"]
                rp["concrete_vals"] = cp.get("concrete_vals", [])
                hfile = v["info"].get("harness_file")
                if do_pb and cp["tests"] and hfile:
                    ok, detail = core.native_playback(unit, gen_dir, Path(hfile), cp["tests"])
                    rp["reproduced"], rp["detail"] = ok, detail
                else:
                    rp["detail"] = cp["detail"] or "harness uses environment stubs; kani playback not applicable"
            else:
                rp["detail"] = "harness uses environment stubs; kani playback not applicable"
        except Exception as e:  # replay machinery failure is not a verdict
            rp["detail"] = f"playback machinery error: {e}"
        if spec.native_replay is not None and rp["reproduced"] is not True:
            try:
                ok, detail = spec.native_replay(rp, workroot)
                rp["native"] = {"reproduced": ok, "detail": detail}
                if ok is not None:
                    rp["reproduced"] = ok
                    rp["detail"] += " | native reproducer: " + detail
            except Exception as e:
                rp["native"] = {"reproduced": None, "detail": f"reproducer error: {e}"}
    else:
        rp["detail"] = v["sub"].get("detail", "")
        rp["model"] = v["sub"].get("model")
        rp["reproduced"] = v["sub"].get("reproduced")
    h = hashlib.sha1(json.dumps([hname, fails], sort_keys=True).encode()).hexdigest()[:10]
    path = core.REPLAYS / f"{prop}-{hname}-{h}.json"
    rp["path"] = str(path)
    rp["how_to_rerun"] = f"./check {prop} --only {hname} --keep   (regenerates the harness crate from /repo and re-decides it)"
    path.write_text(json.dumps(rp, indent=1) + "\n")
    return rp


def dataclass_dict(f):
    import dataclasses
    return dataclasses.asdict(f)


def do_setup() -> int:
    """Build the dependency caches: run every unit with --only-codegen once."""
    rc = 0
    seen = set()
    for prop in all_props():
        try:
            spec = load_spec(prop, "thorough", 0)
        except Exception:
            traceback.print_exc()
            rc = 1
            continue
        try:
            qspec = load_spec(prop, "quick", 0)
            qworkers = {u.name: u.workers for u in qspec.units}
        except Exception:
            qworkers = {}
        for unit in spec.units:
            if unit.name in seen:
                continue
            seen.add(unit.name)
            unit.workers = max(unit.workers, qworkers.get(unit.name, 0))  # worker target dirs for both tiers
            workroot = core.SCRATCH / "setup"
            gen_dir = workroot / unit.name
            shutil.rmtree(gen_dir, ignore_errors=True)
            gen_dir.mkdir(parents=True)
            try:
                unit.generate(gen_dir)
            except Inconclusive as e:
                log(f"setup: unit {unit.name}: cannot generate: {e}")
                rc = 1
                continue
            lock = core._unit_lock(unit)
            try:
                for w in range(unit.workers):
                    cmd = ["cargo", "kani", "-Z", "unstable-options"] + list(unit.kani_flags)
                    if unit.package:
                        cmd += ["-p", unit.package]
                    cmd += ["--only-codegen", "--target-dir", str(core.CACHE / "target" / f"{unit.name}-w{w}")]
                    r, out, wall = core.run_shell(cmd, gen_dir / unit.crate_subdir, 3600)
                    log(f"setup: unit {unit.name} worker {w}: rc={r} {wall:.0f}s")
                    if r != 0:
                        log("\n".join(out.splitlines()[-30:]))
                        rc = 1
            finally:
                lock.close()
            shutil.rmtree(gen_dir, ignore_errors=True)
    return rc


def main():
    ap = argparse.ArgumentParser()
    ap.add_argument("prop", nargs="?")
    ap.add_argument("--tier", default=os.environ.get("VERIF_TIER", "quick"), choices=["quick", "thorough"])
    ap.add_argument("--setup", action="store_true")
    ap.add_argument("--only", default=None)
    ap.add_argument("--keep", action="store_true")
    ap.add_argument("--replay", default=None)
    a = ap.parse_args()
    seed = int(os.environ.get("VERIF_SEED", "0") or 0)
    if a.setup:
        sys.exit(do_setup())
    if not a.prop:
        ap.error("property id required")
    if a.replay:
        d = json.loads(Path(a.replay).read_text())
        print(json.dumps({k: d[k] for k in ("property", "harness", "failed_checks", "reproduced", "detail")}, indent=1))
        for t in d.get("tests", []):
            print(t)
        only = {d["harness"]}
        sys.exit(do_check(a.prop, a.tier, seed, only, True))
    only = set(a.only.split(",")) if a.only else None
    try:
        rc = do_check(a.prop, a.tier, seed, only, a.keep)
    except Exception:
        traceback.print_exc()
        print(f"INCONCLUSIVE property={a.prop} framework error")
        rc = 2
    sys.exit(rc)


if __name__ == "__main__":
    main()
