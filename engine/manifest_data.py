"""Source of truth for MANIFEST.json (regenerate with `python3 engine/mkmanifest.py`)."""

HOOKS = {
    "guard": "kani",
    "enable": "no source hooks in /repo: checks compile verbatim copies/slices of /repo's working tree with kani-compiler, "
              "which sets --cfg kani; harness modules are appended to scratch copies outside /repo",
    "baseline_off_cmd": "cd /repo && cargo test --workspace --no-fail-fast --offline",
    "source_commits": [],
    "add_only": True,
}

NOTES = ("Every check decides its property with CBMC over code compiled from /repo's current working tree (see DESIGN.md). "
         "Exit 0 = held within the stated bounds (KNOWN-FINDING lines possible); exit 1 + VIOLATION line = natively replayed "
         "counterexample not listed in known_findings.json; exit 2 = inconclusive (timeout, OOM, ICE, a slice/rewrite pattern "
         "that no longer matches, or a counterexample that did not reproduce) - never reported as success or as a violation.")

TB = "Trusted: kani-compiler 0.68 / CBMC 6.11 / cadical; the verbatim slicer (fails closed); "

CHECKS = {
    "C24": {
        "text": "Bounded model checking (Kani/CBMC) of the verbatim distribute_partition over its ENTIRE input space "
                "(all 2^16 hashes x 2^16 partition counts x 2^8 replication factors), split into 8 slices of n: length = min(rf,n,12), "
                "all ids < n, pairwise distinct (symbolic index pair), first = hash mod n, empty iff n=0 or rf=0, no panic/overflow; "
                "prefix property and determinism in the thorough tier. The loop is bounded by MAX_REPLICATION_FACTOR=12 (unwind 14, "
                "unwinding assertions on), so within-bounds = all inputs. Quick tier: n >= 8192 slices + n <= 64; thorough adds n in [65,8191], prefix, determinism.",
        "note": TB + "dev-profile semantics (overflow checks on) is what the solver decides; release wrapping behaviour is observed only by native replay.",
        "technique": "Kani/CBMC bounded model checking of the real function, whole input space, SAT (cadical)",
    },
    "C25": {
        "text": "Bounded model checking (Kani/CBMC) of sierradb-protocol's ExpectedVersion/CurrentVersion (path dependency on /repo) and the "
                "verbatim store-side validate_partition_sequence: is_satisfied_by <=> store accepts, gap_from total and equal to the signed "
                "distance, from_next/into_next inverse - all over full u64 (loop-free, so the whole input space); Display/FromStr round trip "
                "on symbolic 256-value windows at 0, 2^32, 2^63, u64::MAX.",
        "note": TB + "Display/parse away from the listed windows is outside the claim; Current(u64::MAX).next() is outside the domain.",
        "technique": "Kani/CBMC bounded model checking of the real functions, full-width symbolic u64, SAT (cadical)",
    },
    "C01": {
        "text": "PARTIAL claim (kernel K1 of DESIGN.md): bounded model checking of seglog's real Writer (append / set_len / flush_writer / sync, with the real "
                "std BufWriter) over a modelled file: after every step the physical position (file cursor + buffered bytes) equals the logical write offset, "
                "sync is followed by fsync before the flushed offset moves, and a fresh reader finds every acknowledged record byte-identical at the offset "
                "append() returned - including the append that follows a rolled-back (set_len) half-written transaction, the history named in the property. "
                "Op scripts and record lengths are enumerated shapes; all record contents are symbolic. The database layer above (thread pools, indexes, "
                "rollover sync watermark, reopen) is outside the claim.",
        "note": TB + "the POSIX file model (harness/seglog/fmodel.rs: no short writes, no IO errors); cheap linear checksum instead of CRC32 here (CRC is C17); "
                "Io error payloads replaced by a unit type; WRITE_BUF_SIZE scaled 16 KiB -> 16 so both BufWriter paths are reachable with 12-byte records.",
        "technique": "Kani/CBMC bounded model checking of the real seglog Writer over a symbolic file model",
    },
    "C18": {
        "text": "Bounded model checking of seglog's real Reader / ReadAheadBuf / Iter and Writer over a modelled file shared between them: every read through a "
                "LONG-LIVED reader (cache filled earlier, with arbitrary bytes - or the preallocated zeros - beyond the then-flushed offset, standing for a writer in mid-write / an idle writer) must equal a "
                "specification-level read of the disk below the flushed offset as they are NOW; unflushed bytes are never served; truncation and header "
                "replacement are observed. Scenario scripts and record lengths are enumerated shapes; record contents, headers and the unflushed tail are symbolic.",
        "note": TB + "the POSIX file model; scaled buffer constants (READ_AHEAD_SIZE 32, PAGE_SIZE 16, OPTIMISTIC_DATA_SIZE 4, WRITE_BUF_SIZE 16); cheap linear checksum; "
                "reader and writer interleave at operation granularity (a reader's single atomic load of the flushed offset is not split); SC atomics.",
        "technique": "Kani/CBMC bounded model checking of the real seglog Reader/Writer over a symbolic file model, differential against a reference reader",
    },
    "C02": {
        "text": "KERNEL claim (the acceptance decision; 'a rejected append changes nothing' and the latest-version queries are outside): bounded model checking of the verbatim WriterSet::validate_event_versions with the real "
                "sierradb-protocol types against a 25-line reference model written from the statement: for every state of 2 streams (absent / present with any version, matching or foreign partition key), 0..2 pending "
                "index entries overriding the index, and every transaction of 3 events (any stream, Any/Exists/Empty/Exact(v), v over full u64): accepted <=> every expectation holds against the state including "
                "earlier events of the same transaction and the partition key matches; accepted appends get the model's versions. The expected-partition-sequence half is decided under C25.",
        "note": TB + "stream index lookups abstracted to a symbolic answer per stream; HashMap -> direct-indexed shim; mock WriterSet/WriteError; the reference model in harness/c02/harness.rs.",
        "technique": "Kani/CBMC bounded model checking of the verbatim validator, differential against a reference model",
    },
    "C03": {
        "text": "KERNEL claim (the offset-index arithmetic; the closed-index lookups, block cache, segment hand-over and reopen are outside): bounded model checking of the verbatim SegmentIter::{new, remaining_offsets, skip, "
                "is_finished} and the verbatim offsets_index expression of the iterator configs: for a segment holding 1..4 versions of a stream (symbolic strictly increasing file offsets, first version and start position over "
                "full u64), a forward scan's remaining offsets are exactly those at or after the position in order, a reverse scan's exactly those at or before it in decreasing order; skip() is exact and bounded.",
        "note": TB + "the statement-range slicer; the live-index precondition version_min <= from is assumed. The end-to-end behaviour (every start position, both directions, 1 and 3 segments) is exercised by the native "
                "reproducer replay-cluster c03, which is a replay aid, not a solver check.",
        "technique": "Kani/CBMC bounded model checking of verbatim slices of the segment iterator index arithmetic",
    },
    "C04": {
        "text": "KERNEL claim (the commit-matching loop in both of its copies; the stream filter and Database::read_transaction are outside): bounded model checking of the verbatim "
                "SegmentBlock::read_committed_events and of BucketSegmentReader::read_committed_events (polonius macros desugared textually) over a mocked read_record serving every log of 3..5 records the writer plus crashes can leave on disk (commits preceded by their event_count events, flagged single events, "
                "orphaned events of uncommitted attempts anywhere, transaction ids reused by a retry) and every start offset: a Single result is a flagged event at the start offset; a Transaction result contains only events that "
                "belong to THAT commit - contiguous, never an orphan, never another transaction's event; a 'nothing here, continue at next' answer never steps over the first record of a committed transaction.",
        "note": TB + "record decoding (seglog parse + bincode) mocked; SmallVec replaced by an array-backed stand-in (<= 4 events per transaction); the reachable-log grammar is an assumption of the harness "
                "(its crash part is confirmed by the native reproducer replay-cluster c04 on the real reader/writer and database).",
        "technique": "Kani/CBMC bounded model checking of the verbatim commit-matching function over symbolic reachable logs",
    },
    "C07": {
        "text": "Claimed for the gating logic of the two local scan handlers (event lookup was read off as correct and is not encoded; version/sequence queries are outside): bounded model checking of verbatim "
                "statement ranges of ClusterActor::handle_partition_read_locally and handle_stream_read_locally over a mock iterator that stores ALL events of a small partition log, confirmed or not: for every "
                "watermark, end and count (symbolic) and every enumerated start / transaction shape (3 single-event transactions, or two 2-event transactions) / stream membership pattern, every returned event has "
                "partition_sequence < watermark, lies in the requested range and stream, order is increasing, unbounded scans return the whole confirmed suffix and has_more never hides confirmed events.",
        "note": TB + "the handlers are taken as statement ranges with the single `.await` on next_batch stripped (the whole async handler under kani::block_on did not terminate); mock iterator returns one commit per batch; "
                "ReplySender records the reply; no native driver exists for these private actor methods (violations are solver counterexamples over the verbatim code).",
        "technique": "Kani/CBMC bounded model checking of verbatim statement-range slices of the read handlers over a symbolic watermark/request",
    },
    "C08": {
        "text": "Claimed for the in-memory watermark algorithm (persistence/crash points of the state file are outside): bounded model checking of the verbatim "
                "PartitionConfirmationState::update_confirmation and AtomicWatermark over every history of up to 4 (quick) / 6 (thorough) confirmation reports "
                "(any order, duplicates, stale lower counts, any replication factor 1..12, versions 1..4): after every report the watermark is monotone, never "
                "exceeds and always equals the longest prefix whose best reported count reaches quorum; plus one inductive step from an arbitrary state "
                "satisfying the representation invariant (no panic, invariant re-established).",
        "note": TB + "std BTreeMap<u64,_> replaced by a direct-indexed map (slot = key, keys < 8) with the same API subset (mocks/shimmap); clock stubbed; bincode derives stripped.",
        "technique": "Kani/CBMC bounded model checking of the verbatim confirmation-state slice, symbolic report histories + inductive step",
    },
    "C12": {
        "text": "Claimed for the ordered replication buffer (the data structure that decides what a replica applies and when): bounded model checking of the verbatim "
                "OrderedQueue::{insert,pop,progress_to} - one operation from an ARBITRARY queue state (limit 1..3, sequences < 8) against the statement's case analysis "
                "(handed out iff key == next, Stale iff below, Conflict iff a different transaction is buffered there, rejected writes leave the buffer unchanged, "
                "duplicates merged without eviction, eviction only of the greatest sequence for a smaller new one and handed back), and delivery histories of 3..5 "
                "writes from new(): application strictly in order, each sequence at most once.",
        "note": TB + "BufferedWrite abstracted to (transaction id, replier count); BTreeMap -> shimmap; the timeout sweep (tokio time), the actor and the database append are outside.",
        "technique": "Kani/CBMC bounded model checking of the verbatim OrderedQueue, inductive step from arbitrary state + short histories",
    },
    "C23": {
        "text": "Bounded model checking of the verbatim sierradb::id functions over their whole input space: for all 2^16 hashes and ALL clock/random bits the generated id "
                "yields back its hash and validates only for it; for all 2^128 uuids and both flag values set/get_uuid_flag change only bit 63, keep the hash, are idempotent "
                "and reversible; an id generated for a key's hash (flagged or not) carries the key's hash (so partition = hash % P and bucket = partition % B agree for every P, B); "
                "bucket helpers equal pid % B / hash % B and stay in range (B <= 256).",
        "note": TB + "rand -> mock whose draws are kani::any(); SystemTime::now -> arbitrary instant after the epoch; real uuid crate.",
        "technique": "Kani/CBMC bounded model checking of the verbatim id functions, full-width symbolic inputs",
    },
    "C26": {
        "text": "Bounded model checking of the verbatim circuit_breaker.rs with atomics and the clock stubbed so that schedules become data: (a) single thread, every sequence "
                "of 5 (quick) / 7 (thorough) operations with symbolic configuration and clock steps: no panic, Closed->Open only by a failure with >= threshold CONSECUTIVE "
                "failures, admitted requests per half-open episode <= half_open_max_calls; (b) 2..4 main-thread operations where at EVERY atomic access / clock read up to 1 "
                "complete operation of another thread runs (properly nested interleavings, depth 1; depth 2 did not fit in memory): no panic/overflow, opens only after threshold failures, probe bound.",
        "note": TB + "sequentially consistent atomics; only properly nested (LIFO) context switches - other interleavings are outside the claim; clock arbitrary but non-decreasing.",
        "technique": "Kani/CBMC bounded model checking of the verbatim breaker; interleavings encoded as nondeterministic nested operations at every atomic access",
    },
    "C13": {
        "text": "Bounded model checking of the verbatim AppConfig::{assigned_buckets, assigned_partitions, node_count} (sierradb-server) against the verbatim "
                "TopologyManager::calculate_assigned_partitions (sierradb-topology): for each of the 24 (N <= 4, buckets <= 6) pairs (6 in the quick tier), every node index, partition count <= 8 "
                "and replication factor <= 4 accepted by the placement-relevant validation rules, and every partition: the node opens the partition's bucket for storage iff the topology routes the partition to it.",
        "note": TB + "mock AppConfig with only the fields the sliced methods read; validation rules restated in the harness; HashSet -> 64-bit bit set; explicit bucket/partition id lists and clusters beyond the bounds are outside ('sampled for large clusters' is not done - this technique does not sample).",
        "technique": "Kani/CBMC bounded model checking of verbatim slices of the config and topology placement rules, compared against each other",
    },
    "C14": {
        "text": "PARTIAL claim (the placement arithmetic; membership-event ordering is outside): bounded model checking of the verbatim TopologyManager::calculate_partition_replicas / "
                "calculate_assigned_partitions. For each of the 24 (N <= 4, buckets <= 6) pairs, all partition counts <= 8 and rf <= 4: exactly min(rf,N) pairwise distinct replicas starting at "
                "the primary node, and a node owns a partition iff it is in the replica set; plus the ownership predicate for cluster sizes up to 1024 (N >= 256 included) against min(rf,N) in wide arithmetic.",
        "note": TB + "generic cluster key instantiated with u32; HashMap/HashSet -> array-backed shims; 'same on every node' holds because the functions are pure - the order of membership events (libp2p state machine) is not examined.",
        "technique": "Kani/CBMC bounded model checking of verbatim slices of the topology manager",
    },
    "C16": {
        "text": "KERNEL-ONLY claim: serialisation is structural (one worker loop per bucket), so what is decided is that the structure is used consistently - bounded model checking of the verbatim "
                "bucket_id_to_thread_id (the one function both routing and ownership call): every listed bucket (<= 6 symbolic distinct ids) maps to exactly one thread id < threads, monotone and gap-free, "
                "unlisted buckets map to no thread, every thread owns a bucket and loads differ by at most one. The race itself (many clients, real threads) is NOT examined.",
        "note": TB + "Kani has no concurrency: the atomicity of validate-then-write on the owning thread is not re-proved under interleaving.",
        "technique": "Kani/CBMC bounded model checking of the verbatim routing function",
    },
    "C17": {
        "text": "Bounded model checking of seglog's real parse_record, Reader (optimistic / fallback / large random paths and the sequential path), Iter and Writer with the REAL crc32fast (table implementation) over a "
                "modelled file: round trip byte-identical through every read path; ANY single flipped bit of crc|header|data (symbolic position) rejected; any single flipped length bit never yields valid data nor a panic; "
                "bursts <= 32 bits (symbolic start and pattern) inside header|data rejected; any strict prefix of a record never returned. Record lengths (0..12 data bytes, H in {0,1}) and read path are enumerated shapes, contents symbolic.",
        "note": TB + "file model; scaled buffer constants so that all four read paths are reachable with <= 12-byte records; crc32fast baseline instead of the cpuid-dispatched SIMD path; compressed records and the reopen scan are outside. "
                "Known findings (format-level, solver-found contents replayed natively): a burst starting inside the stored CRC field, a flipped length bit (>= 3 data bytes) and a lost tail longer than 32 bits can collide under CRC-32.",
        "technique": "Kani/CBMC bounded model checking of the real seglog readers with the real CRC-32 tables; counterexample values replayed natively",
    },
    "C19": {
        "text": "Bounded model checking of the verbatim size-estimate / EventsExceedSegmentSize / rollover-decision statement range of Worker::handle_append_events together with the verbatim size constants of bucket/segment.rs, "
                "against a stored-size model (documented record layout; compressed records anywhere within the zstd worst-case bound; seglog's SegmentFull rule): for transactions of 1 and 2 events with any field lengths <= 100 kB, "
                "compression on/off, any segment size 4 KiB..4 MiB and any fill level - unless rejected up front by the documented EventsExceedSegmentSize limit, a transaction whose stored size fits an empty segment fits "
                "the segment the decision leaves it in, so no SegmentFull that would repeat on every retry.",
        "note": TB + "the stored-size model is an assumption of the harness (confirmed on the real database by the native reproducer replay-cluster c19); zstd itself is FFI and outside; the weaker reading of the statement is used "
                "(the documented up-front size limit is not a violation).",
        "technique": "Kani/CBMC bounded model checking of a verbatim statement-range slice (integer arithmetic over symbolic sizes)",
    },
    "C22": {
        "text": "ONE KERNEL of C22 only (everything else in the property - command histories over TCP against a model - is not encodable and not claimed): bounded model checking of the verbatim statement block of "
                "EMAppend::handle_request that rebuilds per-event stream versions from the cluster reply: for 3 events over two streams with symbolic assignment and full-u64 start versions, no panic and versions start, start+1, ... per stream in event order.",
        "note": TB + "the statement-range slicer; the cluster reply is assumed consistent (stream_versions = last version per stream); HashMap -> shim.",
        "technique": "Kani/CBMC bounded model checking of a verbatim statement-range slice",
    },
}

_PENDING = "check not built yet in this tree (planned in DESIGN.md §3); not claimed until its harness exists and passes"

NOT_APPLICABLE = {
    "C06": "decided by DatabaseBuilder::open's reaction to partial index files written by a background rayon pool plus boomphf "
           "(de)serialisation: directory scanning, thread pools and hash-construction loops are outside what CBMC can encode within reach",
    "C09": "history/live hand-over under arbitrary tokio task interleavings, broadcast lag and acks: a single-threaded bounded checker "
           "cannot represent the schedules the property is about (Kani has no concurrency)",
    "C10": "multi-node fault schedules over real async actor/network code (libp2p/kameo): composing >=3 mocked nodes with a symbolic network does not terminate within bounds",
    "C11": "same schedules and code as C10; not encodable within reach",
    "C15": "the race window exists only between real threads (writer thread vs rayon broadcast vs reader tasks) over two independently updated structures; Kani has no threads",
    "C20": "liveness under thread schedules and tokio wake-up semantics: not a bounded safety query",
}
NOT_APPLICABLE.update({
    "C05": "no solver check: Writer::open's recovery scan is a data-dependent loop (every CRC outcome forks, the resume offset then indexes every buffer) and CBMC did not finish one crash cut in 20 min even with the cut, "
           "lengths and start offset concrete (harness kept as harness/seglog/c05.rs, not registered); index hydration needs the sierradb indexes. A NATIVE experiment (replay-cluster c04 crash_db, not a check) showed a genuine "
           "defect - after a crash that leaves an uncommitted event the next append skipped its sequence - which was repaired in /repo (196f822); nothing is claimed for C05",
    "C21": "not reached: the command parsers are `combine` parser combinators over heap strings (weak solver target); no harness built - nothing claimed",
})
for _p in CHECKS:
    NOT_APPLICABLE.pop(_p, None)
