"""Source of truth for MANIFEST.json (regenerate with `python3 engine/mkmanifest.py`)."""

HOOKS = {
    "guard": "kani",
    "enable": "no source hooks in /repo: checks compile verbatim copies/slices of /repo's working tree with kani-compiler, "
              "which sets --cfg kani; harness modules are appended to scratch copies outside /repo",
    "baseline_off_cmd": "cd /repo && cargo test --workspace --no-fail-fast --offline",
    "source_commits": [],
    "add_only": True,
}

NOTES = ("Every check decides its property with CBMC over code compiled from /repo's current working tree (see DESIGN.md). "
         "Exit 0 = held within the stated bounds (KNOWN-FINDING lines possible); exit 1 + VIOLATION line = natively replayed "
         "counterexample not listed in known_findings.json; exit 2 = inconclusive (timeout, OOM, ICE, a slice/rewrite pattern "
         "that no longer matches, or a counterexample that did not reproduce) - never reported as success or as a violation.")

TB = "Trusted: kani-compiler 0.68 / CBMC 6.11 / cadical; the verbatim slicer (fails closed); "

CHECKS = {
    "C24": {
        "text": "Bounded model checking (Kani/CBMC) of the verbatim distribute_partition over its ENTIRE input space "
                "(all 2^16 hashes x 2^16 partition counts x 2^8 replication factors), split into 8 slices of n: length = min(rf,n,12), "
                "all ids < n, pairwise distinct (symbolic index pair), first = hash mod n, empty iff n=0 or rf=0, no panic/overflow; "
                "prefix property and determinism in the thorough tier. The loop is bounded by MAX_REPLICATION_FACTOR=12 (unwind 14, "
                "unwinding assertions on), so within-bounds = all inputs. Quick tier: n >= 8192 slices + n <= 64; thorough adds n in [65,8191], prefix, determinism.",
        "note": TB + "dev-profile semantics (overflow checks on) is what the solver decides; release wrapping behaviour is observed only by native replay.",
        "technique": "Kani/CBMC bounded model checking of the real function, whole input space, SAT (cadical)",
    },
    "C25": {
        "text": "Bounded model checking (Kani/CBMC) of sierradb-protocol's ExpectedVersion/CurrentVersion (path dependency on /repo) and the "
                "verbatim store-side validate_partition_sequence: is_satisfied_by <=> store accepts, gap_from total and equal to the signed "
                "distance, from_next/into_next inverse - all over full u64 (loop-free, so the whole input space); Display/FromStr round trip "
                "on symbolic 256-value windows at 0, 2^32, 2^63, u64::MAX.",
        "note": TB + "Display/parse away from the listed windows is outside the claim; Current(u64::MAX).next() is outside the domain.",
        "technique": "Kani/CBMC bounded model checking of the real functions, full-width symbolic u64, SAT (cadical)",
    },
    "C01": {
        "text": "PARTIAL claim (kernel K1 of DESIGN.md): bounded model checking of seglog's real Writer (append / set_len / flush_writer / sync, with the real "
                "std BufWriter) over a modelled file: after every step the physical position (file cursor + buffered bytes) equals the logical write offset, "
                "sync is followed by fsync before the flushed offset moves, and a fresh reader finds every acknowledged record byte-identical at the offset "
                "append() returned - including the append that follows a rolled-back (set_len) half-written transaction, the history named in the property. "
                "Op scripts and record lengths are enumerated shapes; all record contents are symbolic. The database layer above (thread pools, indexes, "
                "rollover sync watermark, reopen) is outside the claim.",
        "note": TB + "the POSIX file model (harness/seglog/fmodel.rs: no short writes, no IO errors); cheap linear checksum instead of CRC32 here (CRC is C17); "
                "Io error payloads replaced by a unit type; WRITE_BUF_SIZE scaled 16 KiB -> 16 so both BufWriter paths are reachable with 12-byte records.",
        "technique": "Kani/CBMC bounded model checking of the real seglog Writer over a symbolic file model",
    },
    "C18": {
        "text": "Bounded model checking of seglog's real Reader / ReadAheadBuf / Iter and Writer over a modelled file shared between them: every read through a "
                "LONG-LIVED reader (cache filled earlier, with arbitrary bytes beyond the then-flushed offset standing for a writer in mid-write) must equal a "
                "specification-level read of the disk below the flushed offset as they are NOW; unflushed bytes are never served; truncation and header "
                "replacement are observed. Scenario scripts and record lengths are enumerated shapes; record contents, headers and the unflushed tail are symbolic.",
        "note": TB + "the POSIX file model; scaled buffer constants (READ_AHEAD_SIZE 32, PAGE_SIZE 8, OPTIMISTIC_DATA_SIZE 4, WRITE_BUF_SIZE 16); cheap linear checksum; "
                "reader and writer interleave at operation granularity (a reader's single atomic load of the flushed offset is not split); SC atomics.",
        "technique": "Kani/CBMC bounded model checking of the real seglog Reader/Writer over a symbolic file model, differential against a reference reader",
    },
    "C08": {
        "text": "Claimed for the in-memory watermark algorithm (persistence/crash points of the state file are outside): bounded model checking of the verbatim "
                "PartitionConfirmationState::update_confirmation and AtomicWatermark over every history of up to 4 (quick) / 6 (thorough) confirmation reports "
                "(any order, duplicates, stale lower counts, any replication factor 1..12, versions 1..4): after every report the watermark is monotone, never "
                "exceeds and always equals the longest prefix whose best reported count reaches quorum; plus one inductive step from an arbitrary state "
                "satisfying the representation invariant (no panic, invariant re-established).",
        "note": TB + "std BTreeMap replaced by an array-backed map with the same API subset (mocks/shimmap; capacity is a stated bound); clock stubbed; bincode derives stripped.",
        "technique": "Kani/CBMC bounded model checking of the verbatim confirmation-state slice, symbolic report histories + inductive step",
    },
    "C12": {
        "text": "Claimed for the ordered replication buffer (the data structure that decides what a replica applies and when): bounded model checking of the verbatim "
                "OrderedQueue::{insert,pop,progress_to} - one operation from an ARBITRARY queue state (limit 1..3, sequences < 8) against the statement's case analysis "
                "(handed out iff key == next, Stale iff below, Conflict iff a different transaction is buffered there, rejected writes leave the buffer unchanged, "
                "duplicates merged without eviction, eviction only of the greatest sequence for a smaller new one and handed back), and delivery histories of 3..5 "
                "writes from new(): application strictly in order, each sequence at most once.",
        "note": TB + "BufferedWrite abstracted to (transaction id, replier count); BTreeMap -> shimmap; the timeout sweep (tokio time), the actor and the database append are outside.",
        "technique": "Kani/CBMC bounded model checking of the verbatim OrderedQueue, inductive step from arbitrary state + short histories",
    },
    "C23": {
        "text": "Bounded model checking of the verbatim sierradb::id functions over their whole input space: for all 2^16 hashes and ALL clock/random bits the generated id "
                "yields back its hash and validates only for it; for all 2^128 uuids and both flag values set/get_uuid_flag change only bit 63, keep the hash, are idempotent "
                "and reversible; an id generated for a key's hash (flagged or not) carries the key's hash (so partition = hash % P and bucket = partition % B agree for every P, B); "
                "bucket helpers equal pid % B / hash % B and stay in range (B <= 256).",
        "note": TB + "rand -> mock whose draws are kani::any(); SystemTime::now -> arbitrary instant after the epoch; real uuid crate.",
        "technique": "Kani/CBMC bounded model checking of the verbatim id functions, full-width symbolic inputs",
    },
    "C26": {
        "text": "Bounded model checking of the verbatim circuit_breaker.rs with atomics and the clock stubbed so that schedules become data: (a) single thread, every sequence "
                "of 5 (quick) / 7 (thorough) operations with symbolic configuration and clock steps: no panic, Closed->Open only by a failure with >= threshold CONSECUTIVE "
                "failures, admitted requests per half-open episode <= half_open_max_calls; (b) 2..4 main-thread operations where at EVERY atomic access / clock read up to 1 "
                "(quick) / 2 (thorough) complete operations of other threads run (properly nested interleavings): no panic/overflow, opens only after threshold failures, probe bound.",
        "note": TB + "sequentially consistent atomics; only properly nested (LIFO) context switches - other interleavings are outside the claim; clock arbitrary but non-decreasing.",
        "technique": "Kani/CBMC bounded model checking of the verbatim breaker; interleavings encoded as nondeterministic nested operations at every atomic access",
    },
}

_PENDING = "check not built yet in this tree (planned in DESIGN.md §3); not claimed until its harness exists and passes"

NOT_APPLICABLE = {
    "C06": "decided by DatabaseBuilder::open's reaction to partial index files written by a background rayon pool plus boomphf "
           "(de)serialisation: directory scanning, thread pools and hash-construction loops are outside what CBMC can encode within reach",
    "C09": "history/live hand-over under arbitrary tokio task interleavings, broadcast lag and acks: a single-threaded bounded checker "
           "cannot represent the schedules the property is about (Kani has no concurrency)",
    "C10": "multi-node fault schedules over real async actor/network code (libp2p/kameo): composing >=3 mocked nodes with a symbolic network does not terminate within bounds",
    "C11": "same schedules and code as C10; not encodable within reach",
    "C15": "the race window exists only between real threads (writer thread vs rayon broadcast vs reader tasks) over two independently updated structures; Kani has no threads",
    "C20": "liveness under thread schedules and tokio wake-up semantics: not a bounded safety query",
}
for _p in ["C01", "C02", "C03", "C04", "C05", "C07", "C08", "C12", "C13", "C14", "C16", "C17", "C18", "C19", "C21", "C22", "C23", "C26"]:
    NOT_APPLICABLE.setdefault(_p, _PENDING)
for _p in CHECKS:
    NOT_APPLICABLE.pop(_p, None)
