"""Core of the solver-based checking framework for sierra-db/sierradb.

A *property spec* (props/<ID>.py) names one or more *units*.  A unit is a
generated scratch crate (regenerated from /repo's working tree on every run)
plus a list of Kani proof harnesses.  The deciding step of every check is
CBMC's verdict over the harness (all values of every kani::any() within the
stated unwind bound); this module only generates, runs, classifies, replays
and reports.

Exit codes of a check: 0 held / 1 VIOLATION (printed) / 2 inconclusive.
"""
from __future__ import annotations

import dataclasses
import fcntl
import hashlib
import json
import os
import re
import shutil
import subprocess
import sys
import time
from dataclasses import dataclass, field
from pathlib import Path
from typing import Callable, Optional

VERIF = Path(__file__).resolve().parent.parent
REPO = Path(os.environ.get("VERIF_REPO", "/repo"))
SCRATCH = Path(os.environ.get("VERIF_SCRATCH", "/var/tmp/sierradb-verif"))
CACHE = VERIF / ".cache"
EVIDENCE = VERIF / "evidence"
REPLAYS = EVIDENCE / "replay"
KNOWN = VERIF / "known_findings.json"

ENV = dict(os.environ)
ENV["CARGO_NET_OFFLINE"] = "true"
ENV.setdefault("CARGO_TERM_COLOR", "never")
# Out-of-tree crates must not pick up /repo's rust-toolchain.toml; Kani pins its own.
ENV.pop("RUSTUP_TOOLCHAIN", None)


class Inconclusive(Exception):
    """Raised when a unit cannot be generated / compiled: never a violation."""


def log(*a):
    print(*a, file=sys.stderr, flush=True)


# --------------------------------------------------------------------------- specs


@dataclass
class Harness:
    name: str
    tiers: tuple = ("quick", "thorough")
    timeout_s: int = 300
    # what the obligation says, written out for the evidence `samples`
    obligation: str = ""
    # functions of /repo this harness encodes (for evidence)
    encodes: tuple = ()
    bounds: str = ""
    # a vacuity twin: must come back FAILED with exactly its witness assertion
    expect_fail: bool = False
    # can `cargo kani playback` run it natively (no #[kani::stub] involved)?
    playback: bool = True
    # ask Kani for the concrete kani::any() values of a counterexample (re-runs the harness) so that a native reproducer can use them
    want_values: bool = False
    # seeds (mod n) for which this harness runs in the quick tier; None = always
    quick_seed_slot: Optional[tuple] = None  # (slot, nslots)


@dataclass
class Unit:
    name: str
    generate: Callable[[Path], dict]  # fills dir with a crate; returns info dict (rewrites, slices)
    harnesses: list
    kani_flags: tuple = ()
    jobs: int = 4          # harnesses in parallel inside one kani-driver
    workers: int = 4       # independent kani-driver processes (own target dir each; the driver keeps ~1.5 GB per harness it ran)
    mem_gb: int = 14       # per-cbmc RSS cap enforced by the watchdog
    # sub-directory of the generated dir in which to run cargo kani
    crate_subdir: str = "."
    package: Optional[str] = None
    # module path of the harness functions inside the generated crate ("verif::c18::"), needed by --exact
    harness_prefix: str = ""
    # False when the harnesses rely on #[kani::stub] (stubs are not active in `cargo kani playback`)
    playback: bool = True
    # quick tier: besides the harnesses marked "quick", run this many thorough-only harnesses chosen by VERIF_SEED,
    # so that different seeds cover different shape instances (verdicts themselves are deterministic)
    quick_extra: int = 0


@dataclass
class PropSpec:
    property_id: str
    units: list
    assumptions: list = field(default_factory=list)
    outside_claim: list = field(default_factory=list)
    trusted_base: list = field(default_factory=list)
    # optional native reproducer: fn(failure: dict, workdir: Path) -> (reproduced: bool|None, detail: str)
    native_replay: Optional[Callable] = None
    # extra (non-Kani) solver sub-checks: fn(ctx) -> list[SubResult]
    extra: Optional[Callable] = None


@dataclass
class CheckFailure:
    harness: str
    function: str
    description: str
    file: str
    line: str
    category: str

    def key(self):
        return f"{self.harness}|{short_fn(self.function)}|{norm_desc(self.description)}"


def short_fn(f: str) -> str:
    # strip generic instantiation noise and crate hashes, keep the path
    f = re.sub(r"::<[^<>]*(<[^<>]*>[^<>]*)*>", "", f)
    return f


def norm_desc(d: str) -> str:
    return re.sub(r"\s+", " ", d.strip())


# --------------------------------------------------------------------------- known findings


def load_known(prop: str):
    if not KNOWN.exists():
        return []
    data = json.loads(KNOWN.read_text())
    out = []
    for e in data.get("findings", []):
        if e.get("property") != prop:
            continue
        if e.get("status") != "known":
            continue  # "fixed" entries suppress nothing
        out.append(e)
    return out


def match_known(fail: CheckFailure, known: list):
    for e in known:
        m = e["match"]
        if "harness" in m and not re.search(m["harness"], fail.harness):
            continue
        if "function" in m and not re.search(m["function"], fail.function):
            continue
        if "description" in m and not re.search(m["description"], fail.description):
            continue
        return e
    return None


# --------------------------------------------------------------------------- running Kani


@dataclass
class HarnessResult:
    name: str
    status: str  # success | failed | timeout | error | missing
    failures: list = field(default_factory=list)  # CheckFailure
    unwind_failures: int = 0
    covers_sat: int = 0
    covers_total: int = 0
    covers_unsat: list = field(default_factory=list)
    checks_total: int = 0
    vccs: int = 0
    vccs_remaining: int = 0
    solver_s: float = 0.0
    symex_s: float = 0.0
    wall_s: float = 0.0
    detail: str = ""


def _unit_lock(unit: Unit):
    CACHE.mkdir(parents=True, exist_ok=True)
    lockf = open(CACHE / f"{unit.name}.lock", "w")
    fcntl.flock(lockf, fcntl.LOCK_EX)
    return lockf


def kani_cmd(unit: Unit, target: Path, harnesses: list, export: Path, timeout_s: int, extra=()):
    cmd = ["cargo", "kani", "-Z", "unstable-options"]
    cmd += list(unit.kani_flags)
    if unit.package:
        cmd += ["-p", unit.package]
    cmd += ["--target-dir", str(target), "--output-format", "terse", "-j", str(unit.jobs)]
    cmd += ["--harness-timeout", f"{timeout_s}s", "--export-json", str(export)]
    cmd += list(extra)
    for h in harnesses:
        cmd += ["--harness", unit.harness_prefix + h.name]
    cmd += ["--exact"]
    return cmd


def _watchdog(stop, cwd, mem_gb):
    """Kill any cbmc process whose RSS exceeds mem_gb, and the largest one when the machine runs low."""
    import threading
    while not stop.wait(5.0):
        try:
            out = subprocess.run(["ps", "-eo", "pid,rss,comm"], capture_output=True, text=True).stdout
            procs = []
            for l in out.splitlines()[1:]:
                f = l.split()
                if len(f) >= 3 and f[2] == "cbmc":
                    procs.append((int(f[1]), int(f[0])))
            procs.sort(reverse=True)
            for rss, pid in procs:
                if rss > mem_gb * 1024 * 1024:
                    os.kill(pid, 9)
            avail = 0
            for l in open("/proc/meminfo"):
                if l.startswith("MemAvailable:"):
                    avail = int(l.split()[1])
            if avail and avail < 3 * 1024 * 1024 and procs:
                os.kill(procs[0][1], 9)
        except Exception:
            pass


def run_shell(cmd, cwd, timeout, mem_gb=None, logfile=None, env=None):
    import threading
    sh = " ".join(shquote(c) for c in cmd)
    t0 = time.time()
    stop = threading.Event()
    wd = None
    if mem_gb:
        wd = threading.Thread(target=_watchdog, args=(stop, cwd, mem_gb), daemon=True)
        wd.start()
    try:
        p = subprocess.Popen(["bash", "-c", sh], cwd=cwd, env=env or ENV, stdout=subprocess.PIPE,
                             stderr=subprocess.STDOUT, text=True, errors="replace", start_new_session=True)
        try:
            out, _ = p.communicate(timeout=timeout)
            rc = p.returncode
        except subprocess.TimeoutExpired:
            try:
                os.killpg(p.pid, 9)
            except Exception:
                pass
            out, _ = p.communicate()
            rc = -9
    finally:
        stop.set()
    if logfile:
        Path(logfile).write_text(out or "")
    return rc, out or "", time.time() - t0


def shquote(s):
    import shlex
    return shlex.quote(str(s))


def run_unit(unit: Unit, tier: str, seed: int, workroot: Path, only: Optional[set] = None):
    """Generate the unit crate from /repo, run its harnesses, return (info, results, raw_log)."""
    gen_dir = workroot / unit.name
    if gen_dir.exists():
        shutil.rmtree(gen_dir)
    gen_dir.mkdir(parents=True)
    info = unit.generate(gen_dir)  # may raise Inconclusive
    crate_dir = gen_dir / unit.crate_subdir

    hs = []
    extras = set()
    if tier == "quick" and unit.quick_extra > 0:
        pool = sorted(h.name for h in unit.harnesses if "quick" not in h.tiers and not h.expect_fail)
        k = 0
        while pool and len(extras) < min(unit.quick_extra, len(pool)):
            extras.add(pool[(seed * 7 + k * 13) % len(pool)])
            k += 1
    for h in unit.harnesses:
        if tier not in h.tiers and h.name not in extras:
            continue
        if tier == "quick" and h.quick_seed_slot is not None:
            slot, n = h.quick_seed_slot
            if seed % n != slot:
                continue
        if only and h.name not in only:
            continue
        hs.append(h)
    if not hs:
        return info, {}, ""

    # split into worker groups: longest-timeout first, round-robin
    nw = max(1, min(unit.workers, (len(hs) + 1) // 2))
    order = sorted(hs, key=lambda h: -h.timeout_s)
    groups = [order[i::nw] for i in range(nw)]
    results, outs, cmds, rcs = {}, [], [], []
    import threading
    lock = _unit_lock(unit)
    try:
        def work(i, grp):
            try:
                work_inner(i, grp)
            except Exception as e:  # never lose a harness silently
                import traceback
                for h in grp:
                    if h.name not in results:
                        results[h.name] = HarnessResult(h.name, "error", detail=f"runner exception: {e}\n{traceback.format_exc()[-1500:]}")

        def work_inner(i, grp):
            target = CACHE / "target" / f"{unit.name}-w{i}"
            export = gen_dir / f"kani-export-{i}.json"
            max_to = max(h.timeout_s for h in grp)
            cmd = kani_cmd(unit, target, grp, export, max_to)
            waves = (len(grp) + unit.jobs - 1) // unit.jobs
            overall = 1500 + waves * (max_to + 60)
            rc, out, wall = run_shell(cmd, crate_dir, overall, mem_gb=unit.mem_gb, logfile=gen_dir / f"kani-{i}.log")
            results.update(parse_results(grp, export, out, wall))
            outs.append(out)
            cmds.append(" ".join(cmd))
            rcs.append(rc)
        ths = [threading.Thread(target=work, args=(i, g)) for i, g in enumerate(groups)]
        for t in ths:
            t.start()
        for t in ths:
            t.join()
    finally:
        lock.close()
    info["kani_cmd"] = cmds[0] if cmds else ""
    info["kani_workers"] = len(groups)
    info["seed_rotated_extras"] = sorted(extras)
    info["kani_rc"] = rcs
    return info, results, "\n".join(outs)


def parse_results(hs, export: Path, out: str, wall: float):
    results = {h.name: HarnessResult(h.name, "missing") for h in hs}
    if not export.exists():
        # compile error / ICE: nothing ran
        tail = "\n".join(out.splitlines()[-40:])
        for r in results.values():
            r.status = "error"
            r.detail = "kani produced no result (compile error or ICE):\n" + tail
        return results
    data = json.loads(export.read_text())
    stats = {c["harness_id"]: (c.get("cbmc_stats") or {}) for c in data.get("cbmc", [])}
    errs = {e["harness_id"]: e for e in data.get("error_details", [])}
    for r in data.get("verification_results", {}).get("results", []):
        name = r["harness_id"]
        # harness_id is the pretty name; may be module-qualified
        key = name if name in results else name.split("::")[-1]
        if key not in results:
            continue
        hr = results[key]
        hr.wall_s = r.get("duration_ms", 0) / 1000.0
        st = stats.get(name, {})
        hr.vccs = int(st.get("vccs_generated", 0) or 0)
        hr.vccs_remaining = int(st.get("vccs_remaining", 0) or 0)
        hr.solver_s = float(st.get("runtime_solver_s", 0) or 0)
        hr.symex_s = float(st.get("runtime_symex_s", 0) or 0)
        checks = r.get("checks", [])
        hr.checks_total = len(checks)
        for c in checks:
            stt = c.get("status", "").upper()
            cat = c.get("category", "")
            desc = c.get("description", "")
            if cat == "cover" or desc.startswith("cover condition"):
                hr.covers_total += 1
                if stt == "SATISFIED":
                    hr.covers_sat += 1
                else:
                    hr.covers_unsat.append(desc)
                continue
            if stt == "FAILURE":
                if cat == "unwind" or "unwinding assertion" in desc:
                    hr.unwind_failures += 1
                    continue
                loc = c.get("location", {}) or {}
                hr.failures.append(CheckFailure(key, c.get("function", ""), desc,
                                                loc.get("file", ""), str(loc.get("line", "")), cat))
        status = r.get("status", "")
        e = errs.get(name, {})
        if status == "Success":
            hr.status = "success"
        else:
            et = (e.get("error_type") or "") + " " + (e.get("exit_status") or "")
            if "timeout" in et.lower() or "timed" in et.lower():
                hr.status = "timeout"
            elif hr.failures or hr.unwind_failures:
                hr.status = "failed"
            else:
                hr.status = "error"
                hr.detail = json.dumps(e)
    # harnesses that never reported (timeout / OOM kills are sometimes absent)
    for name, hr in results.items():
        if hr.status == "missing":
            m = re.search(r"(?s)Checking harness [\w:]*%s\b.*" % re.escape(name), out)
            hr.status = "timeout" if "timed out" in out or "Timeout" in out else "error"
            hr.detail = "no result entry in kani export; log tail:\n" + "\n".join(out.splitlines()[-25:])
    return results


# --------------------------------------------------------------------------- replay via kani concrete playback


def concrete_playback(unit: Unit, crate_dir: Path, harness: str, workroot: Path):
    """Ask Kani for the concrete values of a failing harness and run them natively.

    Returns dict(values=<test source>, reproduced=True|False|None, detail=str)."""
    target = CACHE / "target" / f"{unit.name}-w0"
    cmd = ["cargo", "kani", "-Z", "unstable-options", "-Z", "concrete-playback",
           "--concrete-playback=print"] + list(unit.kani_flags)
    if unit.package:
        cmd += ["-p", unit.package]
    cmd += ["--target-dir", str(target), "--harness", unit.harness_prefix + harness, "--exact"]
    lock = _unit_lock(unit)
    try:
        rc, out, _ = run_shell(cmd, crate_dir, 1500, mem_gb=unit.mem_gb)
    finally:
        lock.close()
    tests = re.findall(r"```\n(.*?)```", out, flags=re.S)
    # keep only the tests generated for failing assertions (not covers)
    fail_tests = [t for t in tests if "Check for `cover`" not in t]
    vals = []
    for t in fail_tests[:1]:
        for m in re.finditer(r"vec!\[([0-9,\s]*)\]", t):
            body = m.group(1).strip()
            vals.append([int(x) for x in body.split(",") if x.strip()] if body else [])
    res = {"tests": fail_tests, "reproduced": None, "detail": "", "concrete_vals": vals}
    if not fail_tests:
        res["detail"] = "kani printed no concrete playback test"
        return res
    return res


def native_playback(unit: Unit, gen_dir: Path, harness_file: Path, tests: list, mod_path: str = ""):
    """Append the generated tests next to the harness and run `cargo kani playback`.

    A test that panics natively == the counterexample reproduces against the real code
    compiled by rustc (dev profile)."""
    src = harness_file.read_text()
    marker = "\n// ---- concrete playback (generated) ----\n"
    body = marker + "\n".join(tests) + "\n"
    harness_file.write_text(src + body)
    crate_dir = gen_dir / unit.crate_subdir
    names = re.findall(r"fn (kani_concrete_playback_\w+)", body)
    cmd = ["cargo", "kani", "playback", "-Z", "concrete-playback"]
    if unit.package:
        cmd += ["-p", unit.package]
    cmd += ["--", "kani_concrete_playback"]
    env_target = dict(ENV)
    rc, out, _ = run_shell(cmd, crate_dir, 1500)
    harness_file.write_text(src)
    failed = re.findall(r"test (\S*kani_concrete_playback_\w+) \.\.\. FAILED", out)
    okd = re.findall(r"test (\S*kani_concrete_playback_\w+) \.\.\. ok", out)
    if failed:
        return True, f"{len(failed)}/{len(names)} generated tests panic natively (dev profile)"
    if okd:
        return False, "generated tests pass natively: counterexample does not reproduce"
    return None, "playback did not run: " + "\n".join(out.splitlines()[-15:])


# --------------------------------------------------------------------------- native reproducers (/verif/replay)


def replay_bin(name: str, args: list, timeout=1800, crate: str = "replay"):
    """Build a native reproducer crate (real crates of the repo under check, real files) and run one binary,
    in the dev and the release profile. Returns (reproduced: bool|None, detail).

    The crates under /verif/replay* name /repo in their manifests; when the tree under check is somewhere else
    (VERIF_REPO, used to try seeded changes without touching /repo) a scratch copy with the path substituted is built."""
    if str(REPO) == "/repo":
        cdir, tgt, lockname = VERIF / crate, CACHE / f"{crate}-target", f"{crate}.lock"
    else:
        tag = hashlib.sha1(str(REPO).encode()).hexdigest()[:8]
        cdir = SCRATCH / f"{crate}-{tag}"
        tgt = CACHE / f"{crate}-target-{tag}"
        lockname = f"{crate}-{tag}.lock"
    CACHE.mkdir(parents=True, exist_ok=True)
    lockf = open(CACHE / lockname, "w")
    fcntl.flock(lockf, fcntl.LOCK_EX)
    try:
        if cdir != VERIF / crate:
            if cdir.exists():
                shutil.rmtree(cdir)
            shutil.copytree(VERIF / crate, cdir)
            for f in list(cdir.rglob("*.rs")) + list(cdir.rglob("Cargo.toml")):
                t = f.read_text()
                f.write_text(t.replace('"/repo/', f'"{REPO}/'))
            if not tgt.exists() and (CACHE / f"{crate}-target").exists():
                subprocess.run(["cp", "-al", str(CACHE / f"{crate}-target"), str(tgt)], check=False)
        env = dict(ENV)
        env["CARGO_TARGET_DIR"] = str(tgt)
        shutil.copy(REPO / "Cargo.lock", cdir / "Cargo.lock")
        outs = []
        for profile in ("dev", "release"):
            cmd = ["cargo", "run", "--offline", "-q", "--bin", name] + (["--release"] if profile == "release" else []) + ["--"] + [str(a) for a in args]
            rc, out, _ = run_shell(cmd, cdir, timeout, env=env)
            last = (out.strip().splitlines() or [""])[-1]
            outs.append((profile, rc, last))
    finally:
        lockf.close()
    detail = "; ".join(f"{p}: rc={rc} {l[:300]}" for p, rc, l in outs)
    if any(rc == 1 and "REPRODUCED" in l for _, rc, l in outs):
        return True, detail
    if all(rc == 0 for _, rc, _ in outs):
        return False, detail
    return None, detail
