//! C04 / C05 native reproducers on the real segment reader/writer and the real Database.
//!   c04 retry     : segment-level - [orphan E(t)] [E(t) E(t) commit(t,2)] read from the orphan's offset
//!   c04 crash_db  : database-level - a crash leaves an uncommitted event at the tail of the live segment; reopen, append, scan
use sierradb::bucket::segment::{BucketSegmentReader, BucketSegmentWriter, CommittedEvents, LongBytes, RawCommit, RawEvent, RecordHeader, ShortString};
use sierradb::database::{DatabaseBuilder, NewEvent, Transaction};
use sierradb::id::{uuid_to_partition_hash, uuid_v7_with_partition_hash};
use sierradb::{IterDirection, StreamId};
use sierradb_protocol::ExpectedVersion;
use seglog::read::ReadHint;
use smallvec::smallvec;
use uuid::Uuid;

fn raw(txn: Uuid, key: Uuid, seq: u64, ver: u64, sid: &StreamId) -> RawEvent {
    RawEvent {
        header: RecordHeader::new_event(1_700_000_000, txn).unwrap(),
        event_id: uuid_v7_with_partition_hash(uuid_to_partition_hash(key)).into_bytes(),
        partition_key: key.into_bytes(),
        partition_id: 0,
        partition_sequence: seq,
        stream_version: ver,
        stream_id: sid.clone(),
        event_name: ShortString("n".into()),
        metadata: LongBytes(vec![]),
        payload: LongBytes(vec![1, 2, 3]),
    }
}

fn unflagged() -> Uuid {
    // multi-event transaction id: flag bit (MSB of byte 8) clear
    sierradb::id::set_uuid_flag(Uuid::new_v4(), false)
}

#[tokio::main]
async fn main() {
    let scen = std::env::args().nth(1).unwrap_or_else(|| "retry".into());
    let mut bad: Option<String> = None;
    let sid = StreamId::new("s").unwrap();
    let key = Uuid::new_v4();
    match scen.as_str() {
        "retry" => {
            let dir = tempfile::tempdir().unwrap();
            let path = dir.path().join("seg");
            let t = unflagged();
            let mut w = BucketSegmentWriter::create(&path, 0, 256 * 1024, false).unwrap();
            let (orphan_off, _) = w.append_event(1, &raw(t, key, 0, 0, &sid)).unwrap(); // attempt 1 crashed after one event
            let (e1, _) = w.append_event(1, &raw(t, key, 0, 0, &sid)).unwrap(); // retry of the same transaction id
            let (e2, _) = w.append_event(1, &raw(t, key, 1, 1, &sid)).unwrap();
            w.append_commit(1, &RawCommit { header: RecordHeader::new_commit(1_700_000_000, t).unwrap(), event_count: 2 }).unwrap();
            w.sync().unwrap();
            let mut r = BucketSegmentReader::open(&path, Some(w.flushed_offset())).unwrap();
            match r.read_committed_events(orphan_off, ReadHint::Random).unwrap() {
                (Some(CommittedEvents::Transaction { events, commit }), _) => {
                    if events.len() as u32 != commit.event_count || events.iter().any(|e| e.offset == orphan_off) {
                        bad = Some(format!("reading from the orphaned event at {orphan_off}: a transaction of {} events is returned for a commit with event_count {} - it includes the event of the attempt that never committed (members are at {e1}, {e2})",
                                           events.len(), commit.event_count));
                    }
                }
                _ => {}
            }
        }
        "crash_db" => {
            let dir = tempfile::tempdir().unwrap();
            let hash = uuid_to_partition_hash(key);
            let mk = |v: ExpectedVersion| NewEvent { event_id: uuid_v7_with_partition_hash(hash), stream_id: sid.clone(), stream_version: v, event_name: "n".into(), timestamp: 1, metadata: vec![], payload: vec![9] };
            {
                let db = DatabaseBuilder::new().total_buckets(1).bucket_ids_from_range(0..1).open(dir.path()).unwrap();
                for _ in 0..3 {
                    db.append_events(Transaction::new(key, 0, smallvec![mk(ExpectedVersion::Any)]).unwrap()).await.unwrap();
                }
                db.shutdown().await;
            }
            // crash emulation: the first event of a two-event transaction reached the file, its sibling and the commit did not
            let seg = dir.path().join("buckets").join("00000").join("segments").join("0000000000").join("data.evts");
            {
                let mut w = BucketSegmentWriter::open(&seg, 256 * 1024 * 1024, false).or_else(|_| BucketSegmentWriter::open(&seg, 64 * 1024 * 1024, false)).unwrap();
                w.append_event(0, &raw(unflagged(), key, 3, 3, &sid)).unwrap();
                w.sync().unwrap();
            }
            let db = match DatabaseBuilder::new().total_buckets(1).bucket_ids_from_range(0..1).open(dir.path()) {
                Ok(db) => db,
                Err(e) => { println!("REPRODUCED C05 crash_db: reopening after the crash failed: {e}"); std::process::exit(1); }
            };
            // the committed prefix has 3 events (sequences 0..2, versions 0..2); the next append must continue at 3
            let r = db.append_events(Transaction::new(key, 0, smallvec![mk(ExpectedVersion::Any)]).unwrap()).await;
            match r {
                Ok(a) => {
                    if a.first_partition_sequence != 3 {
                        bad = Some(format!("after a crash that left one uncommitted event, the next append got partition sequence {} (committed prefix ends at 2: gap / the orphan's sequence was consumed)", a.first_partition_sequence));
                    }
                }
                Err(e) => bad = Some(format!("append after crash recovery failed: {e}")),
            }
            if bad.is_none() {
                let mut it = db.read_partition(0, 0, IterDirection::Forward).await.unwrap();
                let mut seqs = vec![];
                loop {
                    match it.next().await {
                        Ok(Some(c)) => match c {
                            CommittedEvents::Single(e) => seqs.push(e.partition_sequence),
                            CommittedEvents::Transaction { events, .. } => seqs.extend(events.iter().map(|e| e.partition_sequence)),
                        },
                        Ok(None) => break,
                        Err(e) => { bad = Some(format!("partition scan after crash recovery failed: {e}")); break; }
                    }
                }
                if bad.is_none() && seqs != vec![0, 1, 2, 3] {
                    bad = Some(format!("partition scan after crash recovery returned sequences {seqs:?}, expected [0, 1, 2, 3]"));
                }
            }
        }
        _ => std::process::exit(2),
    }
    match bad {
        Some(m) => {
            println!("REPRODUCED {} {scen}: {m}", if scen == "retry" { "C04" } else { "C05" });
            std::process::exit(1);
        }
        None => println!("not reproduced: {scen} behaves"),
    }
}
