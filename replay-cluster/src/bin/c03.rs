//! C03 native reproducer: reverse / forward stream scans of the real Database from every start position.
//! usage: c03 [n_events]
use sierradb::bucket::segment::CommittedEvents;
use sierradb::database::{DatabaseBuilder, NewEvent, Transaction};
use sierradb::id::{uuid_to_partition_hash, uuid_v7_with_partition_hash};
use sierradb::{IterDirection, StreamId};
use sierradb_protocol::ExpectedVersion;
use smallvec::smallvec;
use uuid::Uuid;

#[tokio::main]
async fn main() {
    let n: u64 = std::env::args().nth(1).and_then(|s| s.parse().ok()).unwrap_or(5);
    // second argument: payload size; with ~4 KiB payloads and the minimum segment size (128 KiB) 70 events span 3 segments
    let plen: usize = std::env::args().nth(2).and_then(|s| s.parse().ok()).unwrap_or(3);
    let dir = tempfile::tempdir().unwrap();
    let db = DatabaseBuilder::new().total_buckets(1).bucket_ids_from_range(0..1).segment_size_bytes(131072).open(dir.path()).unwrap();
    let key = Uuid::new_v4();
    let hash = uuid_to_partition_hash(key);
    let sid = StreamId::new("s").unwrap();
    for _ in 0..n {
        let e = NewEvent { event_id: uuid_v7_with_partition_hash(hash), stream_id: sid.clone(), stream_version: ExpectedVersion::Any, event_name: "n".into(), timestamp: 1, metadata: vec![], payload: vec![7u8; plen] };
        db.append_events(Transaction::new(key, 0, smallvec![e]).unwrap()).await.unwrap();
    }
    let mut bad = None;
    'o: for dirn in [IterDirection::Forward, IterDirection::Reverse] {
        for from in (0..=n + 1).chain([u64::MAX]) {
            let mut it = db.read_stream(0, sid.clone(), from, dirn).await.unwrap();
            let mut got = vec![];
            while let Some(c) = it.next().await.unwrap() {
                match c {
                    CommittedEvents::Single(ev) => got.push(ev.stream_version),
                    CommittedEvents::Transaction { events, .. } => got.extend(events.iter().map(|e| e.stream_version)),
                }
            }
            let want: Vec<u64> = match dirn {
                IterDirection::Forward => (0..n).filter(|v| *v >= from).collect(),
                IterDirection::Reverse => (0..n).filter(|v| *v <= from).rev().collect(),
            };
            if got != want {
                bad = Some(format!("stream with versions 0..{}: {dirn:?} scan from version {from} returned {got:?}, expected {want:?}", n - 1));
                break 'o;
            }
        }
    }
    match bad {
        Some(m) => {
            println!("REPRODUCED C03 scan: {m}");
            std::process::exit(1);
        }
        None => println!("not reproduced: C03 scan behaves"),
    }
}
