//! C14 native reproducer: the real TopologyManager. usage: c14 large_n
use sierradb_topology::test_helpers::create_test_manager_with_params;

fn main() {
    let mut bad = None;
    // one bucket, one partition: partition 0 must be owned by exactly nodes 0..min(rf, N)
    for n in [3usize, 255, 256, 257, 300, 512, 1000] {
        for rf in [1u8, 2, 3] {
            let want = (rf as usize).min(n);
            let owners = (0..n)
                .filter(|idx| create_test_manager_with_params(*idx, n, 1, 1, rf).0.has_partition(0))
                .count();
            if owners != want && bad.is_none() {
                bad = Some(format!("cluster of {n} nodes, replication factor {rf}: partition 0 is owned by {owners} node(s), expected min(rf, N) = {want}"));
            }
        }
    }
    match bad {
        Some(m) => {
            println!("REPRODUCED C14 large_n: {m}");
            std::process::exit(1);
        }
        None => println!("not reproduced: C14 large_n behaves"),
    }
}
