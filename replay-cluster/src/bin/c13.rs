//! C13 native reproducer: the real AppConfig (sierradb-server) against the real TopologyManager.
//! Tries every validated configuration with N <= 4, buckets <= 6, partitions <= 8, rf <= 4.
use sierradb_server::config::*;
use sierradb_topology::test_helpers::create_test_manager_with_params;

fn cfg(n: u32, idx: u32, b: u16, p: u16, rf: u8) -> AppConfig {
    AppConfig {
        append: AppendConfig { strict_versioning: false },
        bucket: BucketConfig { count: b, ids: None },
        cache: CacheConfig { capacity_bytes: 1 << 20 },
        dir: "/tmp/unused".into(),
        heartbeat: HeartbeatConfig { interval_ms: 1000, timeout_ms: 5000 },
        network: NetworkConfig { cluster_enabled: true, cluster_address: "/ip4/0.0.0.0/tcp/0".parse().unwrap(), client_address: "0.0.0.0:0".into(), mdns: false },
        node: NodeConfig { count: Some(n), index: idx },
        partition: PartitionConfig { count: p, ids: None },
        replication: ReplicationConfig { buffer_size: 10, buffer_timeout_ms: 1000, catchup_timeout_ms: 1000, factor: rf },
        segment: SegmentConfig { size_bytes: 1 << 20, compression: false },
        sync: SyncConfig { interval_ms: 5, idle_interval_ms: None, max_batch_size: 10, min_bytes: 1 },
        threads: Threads::default(),
        nodes: None,
    }
}

fn main() {
    let mut bad = None;
    'o: for n in 1u32..=4 {
        for b in 1u16..=6 {
            for p in b.max(n as u16)..=8 {
                for rf in 1u8..=4 {
                    for idx in 0..n {
                        let c = cfg(n, idx, b, p, rf);
                        let buckets = c.assigned_buckets().unwrap();
                        let stored = c.assigned_partitions(&buckets);
                        let (mgr, _) = create_test_manager_with_params(idx as usize, n as usize, p, b, rf);
                        let routed = mgr.get_assigned_partitions();
                        if &stored != routed {
                            let mut s: Vec<_> = stored.iter().copied().collect();
                            let mut r: Vec<_> = routed.iter().copied().collect();
                            let mut bk: Vec<_> = buckets.iter().copied().collect();
                            s.sort(); r.sort(); bk.sort();
                            bad = Some(format!("nodes={n} index={idx} buckets={b} partitions={p} rf={rf}: the node opens buckets {bk:?} (partitions {s:?}) but the cluster routes partitions {r:?} to it"));
                            break 'o;
                        }
                    }
                }
            }
        }
    }
    match bad {
        Some(m) => {
            println!("REPRODUCED C13 placement: {m}");
            std::process::exit(1);
        }
        None => println!("not reproduced: C13 placement behaves"),
    }
}
