//! C19 native reproducer: the real Database with compression on and an incompressible payload.
//! The live segment is filled so that its free space lies between the writer's size ESTIMATE for the next
//! event (uncompressed) and the size that is actually STORED (zstd output of random bytes + 4-byte length
//! prefix is larger than the input). usage: c19 [payload_len]
use sierradb::bucket::segment::{COMMIT_SIZE, EVENT_HEADER_SIZE, SEGMENT_HEADER_SIZE};
use sierradb::database::{DatabaseBuilder, NewEvent, Transaction};
use sierradb::id::{uuid_to_partition_hash, uuid_v7_with_partition_hash};
use sierradb::StreamId;
use sierradb_protocol::ExpectedVersion;
use smallvec::smallvec;
use uuid::Uuid;

fn rnd(n: usize, mut x: u64) -> Vec<u8> {
    (0..n).map(|_| { x ^= x << 13; x ^= x >> 7; x ^= x << 17; (x >> 24) as u8 }).collect()
}

fn ev(hash: u16, stream: &str, name: &str, payload: Vec<u8>) -> NewEvent {
    NewEvent {
        event_id: uuid_v7_with_partition_hash(hash),
        stream_id: StreamId::new(stream).unwrap(),
        stream_version: ExpectedVersion::Any,
        event_name: name.to_string(),
        // pseudo-random, so that the fixed-size event header is as incompressible as the payload
        timestamp: payload.iter().fold(0x9e37_79b9_7f4a_7c15u64, |a, b| (a ^ *b as u64).wrapping_mul(0x100_0000_01b3)) >> 2,
        metadata: vec![],
        payload,
    }
}

#[tokio::main]
async fn main() {
    let plen: usize = std::env::args().nth(1).and_then(|s| s.parse().ok()).unwrap_or(1000);
    // number of events in the big transaction (>= 2: a commit record is written as well)
    let nev: usize = std::env::args().nth(2).and_then(|s| s.parse().ok()).unwrap_or(1);
    let segment_size = 131072usize; // the smallest segment size the builder accepts
    let key = Uuid::new_v4();
    let hash = uuid_to_partition_hash(key);
    let mut bad = None;
    // the stored size of the big event is unknown up front (it depends on zstd): try every slack 0..40 between the
    // estimate and the free space; the property demands success for all of them
    'o: for slack in (0..(nev * 20 + 90)).step_by(if plen < 200 { 1 } else if nev == 1 { 3 } else { 11 }) {
        let dir = tempfile::tempdir().unwrap();
        let db = DatabaseBuilder::new()
            .segment_size_bytes(segment_size)
            .total_buckets(1)
            .bucket_ids_from_range(0..1)
            .compression(true)
            .sync_interval(std::time::Duration::from_millis(1))
            .min_sync_bytes(1)
            .open(dir.path())
            .unwrap();
        let est_big = nev * (EVENT_HEADER_SIZE + 1 + 1 + plen) + if nev > 1 { COMMIT_SIZE } else { 0 }; // raw size; stream "s", name "n"
        // fill the live segment with small (uncompressed: < 128 bytes) single-event transactions so that
        // free space == est_big + slack
        let mut free = segment_size - SEGMENT_HEADER_SIZE;
        let target_free = est_big + slack;
        assert!(free > target_free);
        let mut k = 0u32;
        // every filler record stays below seglog's compression threshold (stored size == raw size, exactly)
        let base = EVENT_HEADER_SIZE + 1 + 1; // empty payload filler
        let maxf = base + 25;
        let mut sizes: Vec<usize> = Vec::new();
        let mut need = free - target_free;
        while need > 5 * maxf {
            sizes.push(maxf);
            need -= maxf;
        }
        if need > 0 {
            let n = need.div_ceil(maxf);
            if base * n <= need {
                sizes.extend((0..n).map(|i| need / n + usize::from(i < need % n)));
            }
        }
        for size in sizes {
            let t = Transaction::new(key, 0, smallvec![ev(hash, "f", "n", vec![7u8; size - base])]).unwrap();
            db.append_events(t).await.unwrap();
            free -= size;
            k += 1;
        }
        if free != target_free { continue; }
        let big = || {
            let evs: smallvec::SmallVec<[NewEvent; 4]> = (0..nev).map(|i| ev(hash, "s", "n", rnd(plen, 0x9e3779b97f4a7c15 + (slack * 131 + i) as u64))).collect();
            Transaction::new(key, 0, evs).unwrap()
        };
        let mut errs = vec![];
        for _attempt in 0..3 {
            match db.append_events(big()).await {
                Ok(_) => { errs.clear(); break; }
                Err(e) => errs.push(e.to_string()),
            }
        }
        if !errs.is_empty() {
            bad = Some(format!("segment {segment_size} B, compression on, {k} filler events leave {free} B free; a transaction of {nev} event(s) with {plen}-byte incompressible payloads (raw size {est_big} B, fits an empty segment) \
                                is rejected on every one of 3 attempts: {}", errs[0]));
            break 'o;
        }
    }
    match bad {
        Some(m) => {
            println!("REPRODUCED C19: {m}");
            std::process::exit(1);
        }
        None => println!("not reproduced: C19 behaves"),
    }
}
