//! C08 native reproducer: the real PartitionConfirmationState. usage: c08 stale|attempts
use sierradb_cluster::confirmation::PartitionConfirmationState;

fn main() {
    let scen = std::env::args().nth(1).unwrap_or_else(|| "stale".into());
    let mut bad = None;
    match scen.as_str() {
        "stale" => {
            // rf = 3, quorum = 2. version 2 reaches quorum first, then a stale lower count for it arrives,
            // then version 1 reaches quorum. Every confirmation has been reported: prefix = 2.
            let mut st = PartitionConfirmationState::new(0);
            st.update_confirmation(2, 2, 3);
            st.update_confirmation(2, 1, 3); // stale duplicate
            st.update_confirmation(1, 2, 3);
            let wm = st.confirmed_watermark.get();
            if wm != 2 {
                bad = Some(format!("versions 1 and 2 were both reported with quorum count 2 (rf 3) but the watermark is {wm}"));
            }
        }
        "attempts" => {
            let r = std::panic::catch_unwind(|| {
                let mut st = PartitionConfirmationState::new(0);
                for _ in 0..300 {
                    st.update_confirmation(2, 1, 3); // version 1 missing: version 2 stays unconfirmed
                }
                st.confirmed_watermark.get()
            });
            if r.is_err() {
                bad = Some("update_confirmation panicked on the 256th duplicate report for a pending version (attempts: u8 overflow)".into());
            }
        }
        _ => std::process::exit(2),
    }
    match bad {
        Some(m) => {
            println!("REPRODUCED C08 {scen}: {m}");
            std::process::exit(1);
        }
        None => println!("not reproduced: C08 {scen} behaves"),
    }
}
