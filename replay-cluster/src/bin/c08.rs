//! C08 native reproducer: the real PartitionConfirmationState. usage: c08 stale|attempts
use sierradb_cluster::confirmation::PartitionConfirmationState;

fn main() {
    let scen = std::env::args().nth(1).unwrap_or_else(|| "stale".into());
    let mut bad: Option<String> = None;
    match scen.as_str() {
        "stale" => {
            // rf = 3, quorum = 2. version 2 reaches quorum first, then a stale lower count for it arrives,
            // then version 1 reaches quorum. Every confirmation has been reported: prefix = 2.
            let mut st = PartitionConfirmationState::new(0);
            st.update_confirmation(2, 2, 3);
            st.update_confirmation(2, 1, 3); // stale duplicate
            st.update_confirmation(1, 2, 3);
            let wm = st.confirmed_watermark.get();
            if wm != 2 {
                bad = Some(format!("versions 1 and 2 were both reported with quorum count 2 (rf 3) but the watermark is {wm}"));
            }
        }
        "attempts" => {
            let r = std::panic::catch_unwind(|| {
                let mut st = PartitionConfirmationState::new(0);
                for _ in 0..300 {
                    st.update_confirmation(2, 1, 3); // version 1 missing: version 2 stays unconfirmed
                }
                st.confirmed_watermark.get()
            });
            if r.is_err() {
                bad = Some("update_confirmation panicked on the 256th duplicate report for a pending version (attempts: u8 overflow)".into());
            }
        }
        // bounded native search with the harness's own oracle over the REAL type: every history of <= 4 reports
        // (version 1..=4, count 0..=rf) for rf in {1, 3}: monotone, never above and always equal to the confirmed prefix
        "search" => {
            'o: for rf in [1u8, 3] {
                let quorum = rf / 2 + 1;
                let choices: Vec<(u64, u8)> = (1..=4u64).flat_map(|v| (0..=rf).map(move |c| (v, c))).collect();
                for len in 1..=4u32 {
                    for code in 0..(choices.len() as u64).pow(len) {
                        let mut st = PartitionConfirmationState::new(0);
                        let mut best = [0u8; 5];
                        let mut c = code;
                        let mut hist = vec![];
                        for _ in 0..len {
                            let (v, cnt) = choices[(c % choices.len() as u64) as usize];
                            c /= choices.len() as u64;
                            hist.push((v, cnt));
                            let before = st.confirmed_watermark.get();
                            st.update_confirmation(v, cnt, rf);
                            best[v as usize] = best[v as usize].max(cnt);
                            let after = st.confirmed_watermark.get();
                            let mut want = 0;
                            for k in 1..=4usize {
                                if best[k] >= quorum { want = k as u64 } else { break }
                            }
                            if after < before || after != want {
                                bad = Some(format!("rf={rf} history {hist:?}: watermark {before} -> {after}, longest quorum-confirmed prefix is {want}"));
                                break 'o;
                            }
                        }
                    }
                }
            }
        }
        _ => std::process::exit(2),
    }
    match bad {
        Some(m) => {
            println!("REPRODUCED C08 {scen}: {m}");
            std::process::exit(1);
        }
        None => println!("not reproduced: C08 {scen} behaves"),
    }
}
