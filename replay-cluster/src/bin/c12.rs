//! C12 native reproducer: the real OrderedQueue. usage: c12 conflict_evicts|merge_evicts|merge_full
use sierradb_cluster::write::ordered_queue::{Error, OrderedQueue, OrderedValue};

#[derive(Clone, Debug, PartialEq)]
struct W {
    txn: u8,
    repliers: u8,
}
impl OrderedValue for W {
    fn key_eq(&self, other: &Self) -> bool {
        self.txn == other.txn
    }
    fn merge(&mut self, new: Self) {
        self.repliers += new.repliers;
    }
}

fn main() {
    let scen = std::env::args().nth(1).unwrap_or_default();
    let mut q: OrderedQueue<u64, W> = OrderedQueue::new(0, 2);
    // buffer full: sequences 3 and 5 are waiting
    q.insert(3, W { txn: 3, repliers: 1 }).unwrap();
    q.insert(5, W { txn: 5, repliers: 1 }).unwrap();
    let mut bad = None;
    match scen.as_str() {
        "conflict_evicts" => {
            // a DIFFERENT transaction claims sequence 3: must be rejected without touching the buffer
            let r = q.insert(3, W { txn: 99, repliers: 1 });
            let conflict = matches!(r, Err(Error::Conflict { .. }));
            if !(conflict && q.map.contains_key(&5) && q.map.contains_key(&3)) {
                bad = Some(format!("conflicting write at seq 3 (conflict reported: {conflict}) changed the buffer: keys now {:?} - the buffered write at seq 5 was dropped without being handed back", q.map.keys().collect::<Vec<_>>()));
            }
        }
        "merge_evicts" => {
            // a duplicate of the buffered write at 3 arrives: merge needs no room
            let r = q.insert(3, W { txn: 3, repliers: 1 }).ok();
            let evicted = r.as_ref().and_then(|r| r.evicted.clone());
            if evicted.is_some() || !q.map.contains_key(&5) {
                bad = Some(format!("duplicate of seq 3 merged, but seq 5 was evicted to 'make room': evicted={evicted:?}"));
            }
        }
        "merge_full" => {
            // a duplicate of the buffered write at 5 (the greatest key) arrives
            match q.insert(5, W { txn: 5, repliers: 1 }) {
                Ok(r) if r.merged_with_existing => {}
                other => bad = Some(format!("duplicate of the buffered write at seq 5 was not merged: {:?}", other.map(|r| r.merged_with_existing).map_err(|e| e.to_string()))),
            }
        }
        _ => std::process::exit(2),
    }
    match bad {
        Some(m) => {
            println!("REPRODUCED C12 {scen}: {m}");
            std::process::exit(1);
        }
        None => println!("not reproduced: C12 {scen} behaves"),
    }
}
