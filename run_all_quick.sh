#!/bin/sh
# Runs every registered quick check once (evidence files are rewritten); prints one summary line per property.
cd "$(dirname "$0")"
for p in $(python3 -c "import json;print(' '.join(c['property_id'] for c in json.load(open('MANIFEST.json'))['checks']))"); do
  t0=$(date +%s)
  ./check $p --tier quick > /tmp/quick_$p.log 2>&1
  rc=$?
  echo "$p rc=$rc $(( $(date +%s) - t0 ))s $(grep -E '^OK|^VIOLATION|^INCONCLUSIVE|^KNOWN' /tmp/quick_$p.log | head -3 | cut -c1-160 | tr '\n' '|')"
done
