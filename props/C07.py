"""C07 — cluster reads only expose the quorum-confirmed prefix of a partition (gating logic of the local scan handlers)."""
from engine.core import Harness, Unit, PropSpec, REPO
from engine import gen

SRC = REPO / "crates/sierradb-cluster/src/read.rs"
L, UNW = 3, 8


def part_instances():
    out = []
    for start in range(0, L + 2):
        out.append((f"c07_partition_singles_s{start}", "false", start))
    for start in (0, 2, 4, 5):  # a scan starts at a transaction's first event
        out.append((f"c07_partition_pairs_s{start}", "true", start))
    return out


def stream_instances():
    out = []
    for bits in range(1, 8):
        mem = tuple(bool(bits >> i & 1) for i in range(L))
        for sv in (0, 1):
            out.append((f"c07_stream_m{bits}_v{sv}", mem, sv))
    return out


def generate(d):
    rewrites = []
    pfn = gen.slice_item(SRC, r"fn\s+handle_partition_read_locally\b")
    sfn = gen.slice_item(SRC, r"fn\s+handle_stream_read_locally\b")
    part_a = gen.slice_between_text(pfn, "// Adjust end_sequence to respect watermark", "tokio::spawn(async move {", include_end=False, what="partition A")
    part_b = gen.slice_between_text(pfn, "let mut events = Vec::new();", "reply_sender.send(Ok(PartitionEvents { events, has_more }));", what="partition B")
    str_b = gen.slice_between_text(sfn, "let mut events = Vec::new();", "reply_sender.send(Ok(StreamEvents { events, has_more }));", what="stream B")
    for nm, txt in (("partition B", part_b), ("stream B", str_b)):
        if txt.count(".await") != 1:
            from engine.core import Inconclusive
            raise Inconclusive(f"{nm}: expected exactly one .await (next_batch), found {txt.count('.await')}")
    part_b = part_b.replace(".await", "")
    str_b = str_b.replace(".await", "")
    pinst = "\n".join(f"#[kani::proof]\n#[kani::unwind({UNW})]\nfn {n}() {{ partition_case({pat}, {st}); }}" for n, pat, st in part_instances())
    sinst = "\n".join(f"#[kani::proof]\n#[kani::unwind({UNW})]\nfn {n}() {{ stream_case([{', '.join(str(x).lower() for x in mem)}], {sv}); }}" for n, mem, sv in stream_instances())
    h = gen.harness_text("c07/harness.rs").replace("@STREAM_INSTANCES@", sinst).replace("@PART_INSTANCES@", pinst).replace("@PART_A@", part_a).replace("@PART_B@", part_b).replace("@STREAM_B@", str_b).replace("@L@", str(L)).replace("@UNW@", str(UNW))
    h = h.replace("impl ClusterActor {\n// ---- verbatim slices of crates/sierradb-cluster/src/read.rs are inserted here\n@SLICES@\n}\n", "")
    lib = ("#![allow(unused, dead_code, static_mut_refs)]\n#![cfg(kani)]\nconst DEFAULT_BATCH_SIZE: usize = 50;\nmacro_rules! debug { ($($t:tt)*) => {{}}; }\nmacro_rules! warn { ($($t:tt)*) => {{}}; }\n" + h)
    gen.write_crate(d, "c07-reads", "", lib)
    rewrites.append("slice: statement ranges of ClusterActor::handle_partition_read_locally (watermark clamp + early return; event collection loop + has_more + reply) and handle_stream_read_locally "
                    "(event collection loop + reply) verbatim into synchronous functions; rewrite: the single `.await` on next_batch stripped (mock iterator is synchronous); "
                    "mock Database/iterator over a modelled log (single-event commits as arrays), ReplySender recording the reply, tracing macros empty, DEFAULT_BATCH_SIZE = 50 restated")
    return {"rewrites": rewrites, "harness_file": None}


ENC = ("ClusterActor::handle_partition_read_locally", "ClusterActor::handle_stream_read_locally")


def native_replay(rp, workroot):
    return None, "the handlers are private methods of the kameo ClusterActor; no native driver without a running cluster node (solver counterexample over the verbatim handler body)"


def spec(tier, seed):
    hs = [
    ] + [
        Harness(n, obligation=f"partition log of {'4 stored events in two 2-event transactions' if pat == 'true' else '3 stored single-event transactions'}, scan from {st}; any watermark (events at/after it are unconfirmed), "
                "any end (None or value) and count: every returned event has partition_sequence < watermark, none before start, strictly increasing; an unbounded scan returns the whole confirmed suffix; has_more never hides remaining confirmed events",
                encodes=ENC[:1], bounds=f"log of 3 single-event or 4 paired events, one commit per batch; transaction shape and start enumerated, watermark/end/count symbolic; unwind {UNW}", timeout_s=600)
        for n, pat, st in part_instances()
    ] + [
    ] + [
        Harness(n, obligation=f"log of {L} single-event transactions, stream membership {mem}, scan from stream version {sv}; any watermark, end, count: every returned event belongs to the stream and has partition_sequence < watermark; "
                "an unbounded scan from version 0 returns every confirmed event of the stream", encodes=ENC[1:], bounds=f"log length {L}; membership and start version enumerated; unwind {UNW}", timeout_s=600,
                tiers=("quick", "thorough") if n in ("c07_stream_m7_v0", "c07_stream_m5_v0", "c07_stream_m6_v1") else ("thorough",))
        for n, mem, sv in stream_instances()
    ] + [
        Harness("c07_vacuity_witness", expect_fail=True, obligation="twin", timeout_s=600),
    ]
    u = Unit("c07", generate, hs, jobs=3, workers=1, quick_extra=2)
    return PropSpec("C07", [u], native_replay=native_replay,
                    assumptions=["mock database iterator: stores all L events (confirmed or not) and returns single-event commits one per batch; limit 0 => None (as BucketIter::next_batch)",
                                 "the handler bodies are taken as statement ranges with `.await` stripped: scheduling of the spawned task is not modelled (the gating logic is sequential code)"],
                    outside_claim=["event lookup (handle_local_read: read off as correct, not encoded), GetStreamVersion / GetPartitionSequence handlers", "multi-event transactions, larger batches", "routing/forwarding between nodes, RESP encoding",
                                   "AtomicWatermark::can_read is decided under C08"],
                    trusted_base=["kani-compiler 0.68 / CBMC 6.11 / cadical", "the slicer", "the mock environment in harness/c07/harness.rs"])
