"""C07 — cluster reads only expose the quorum-confirmed prefix of a partition (gating logic of the local scan handlers)."""
from engine.core import Harness, Unit, PropSpec, REPO
from engine import gen

SRC = REPO / "crates/sierradb-cluster/src/read.rs"
L, UNW = 3, 8


def generate(d):
    rewrites = []
    fns = gen.slice_items(SRC, [r"fn\s+handle_partition_read_locally\b", r"fn\s+handle_stream_read_locally\b"])
    h = gen.harness_text("c07/harness.rs").replace("@SLICES@", fns).replace("@L@", str(L)).replace("@UNW@", str(UNW))
    lib = ("#![allow(unused, dead_code, static_mut_refs)]\n#![cfg(kani)]\nconst DEFAULT_BATCH_SIZE: usize = 50;\nmacro_rules! debug { ($($t:tt)*) => {{}}; }\nmacro_rules! warn { ($($t:tt)*) => {{}}; }\n" + h)
    gen.write_crate(d, "c07-reads", "", lib)
    rewrites.append("slice: ClusterActor::handle_partition_read_locally and handle_stream_read_locally (read.rs) verbatim into a mock ClusterActor {database, watermarks}; "
                    "mock Database/iterator over a modelled log (single-event commits), ReplySender recording the reply, tokio::spawn = kani::block_on, tracing macros empty, DEFAULT_BATCH_SIZE = 50 restated")
    return {"rewrites": rewrites, "harness_file": None}


ENC = ("ClusterActor::handle_partition_read_locally", "ClusterActor::handle_stream_read_locally")


def native_replay(rp, workroot):
    return None, "the handlers are private methods of the kameo ClusterActor; no native driver without a running cluster node (solver counterexample over the verbatim handler body)"


def spec(tier, seed):
    hs = [
        Harness("c07_partition_read_confirmed_prefix_only", obligation=f"partition log of {L} stored events, any watermark 0..={L} (events at/after it are unconfirmed), any start, end (None or value), count: every returned event has partition_sequence < watermark, "
                "none before start, strictly increasing; an unbounded scan returns the whole confirmed suffix; has_more never hides remaining confirmed events",
                encodes=ENC[:1], bounds=f"log length {L}, single-event commits, one commit per batch; all request parameters symbolic in [0,{L+1}]; unwind {UNW}", timeout_s=1500),
        Harness("c07_stream_read_confirmed_prefix_only", obligation=f"same log with a symbolic assignment of events to the stream: every returned event belongs to the stream and has partition_sequence < watermark",
                encodes=ENC[1:], bounds=f"log length {L}; unwind {UNW}", timeout_s=1500),
        Harness("c07_vacuity_witness", expect_fail=True, obligation="twin", timeout_s=600),
    ]
    u = Unit("c07", generate, hs, kani_flags=("-Z", "async-lib"), jobs=3, workers=1)
    return PropSpec("C07", [u], native_replay=native_replay,
                    assumptions=["mock database iterator: stores all L events (confirmed or not) and returns single-event commits one per batch; limit 0 => None (as BucketIter::next_batch)",
                                 "futures of the mocks are always ready, so tokio::spawn(async ..) is one kani::block_on"],
                    outside_claim=["event lookup (handle_local_read: read off as correct, not encoded), GetStreamVersion / GetPartitionSequence handlers", "multi-event transactions, larger batches", "routing/forwarding between nodes, RESP encoding",
                                   "AtomicWatermark::can_read is decided under C08"],
                    trusted_base=["kani-compiler 0.68 / CBMC 6.11 / cadical", "the slicer", "the mock environment in harness/c07/harness.rs"])
