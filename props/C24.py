"""C24 — distribute_partition returns exactly min(rf, n, 12) distinct valid partitions."""
from engine.core import Harness, Unit, PropSpec, REPO
from engine import gen

TOPO = REPO / "crates/sierradb-topology/src/lib.rs"
SLIB = REPO / "crates/sierradb/src/lib.rs"
BUCKET = REPO / "crates/sierradb/src/bucket.rs"


def generate(d):
    rewrites = []
    fn = gen.slice_item(TOPO, r"fn\s+distribute_partition\b")
    consts = gen.slice_item(SLIB, r"const\s+MAX_REPLICATION_FACTOR\b")
    types = gen.slice_items(BUCKET, [r"type\s+PartitionHash\b", r"type\s+PartitionId\b"])
    lib = """#![allow(unused, dead_code)]
#![cfg(kani)]
use std::cmp;
use arrayvec::ArrayVec;
// ---- verbatim from crates/sierradb/src/lib.rs and bucket.rs
""" + consts + "\n" + types + """
// ---- verbatim from crates/sierradb-topology/src/lib.rs
""" + fn + "\n\n" + gen.harness_text("c24/harness.rs").replace("@SUB0@", "\n".join(f"#[kani::proof]\n#[kani::unwind(14)]\nfn c24_prefix_r{lo}_{hi}() {{ prefix_range({lo}, {hi}); }}" for lo, hi in SUB0))
    gen.write_crate(d, "c24-distribute", 'arrayvec = "0.7"', lib)
    rewrites.append("slice: fn distribute_partition (sierradb-topology/src/lib.rs) + MAX_REPLICATION_FACTOR, PartitionHash, PartitionId (sierradb) verbatim; real arrayvec crate")
    return {"rewrites": rewrites, "harness_file": str(d / "src/lib.rs")}


# the prefix property for n < 8192 is split further (the one-slice query did not finish in 3000 s)
SUB0 = [(0, 255), (256, 1023), (1024, 2047), (2048, 4095), (4096, 8191)]


def spec(tier, seed):
    enc = ("sierradb_topology::distribute_partition",)
    hs = []
    for k in range(8):
        lo, hi = k << 13, ((k + 1) << 13) - 1
        hs.append(Harness(f"c24_shape_n{k}", obligation=f"for all hash:u16, rf:u8, n in [{lo},{hi}]: len==min(rf,n,12), all < n, pairwise distinct, first == hash % n, empty iff n==0||rf==0, no panic",
                          encodes=enc, bounds="whole input space of this slice; unwind 14 (MAX_REPLICATION_FACTOR=12)", timeout_s=1500,
                          tiers=("thorough",) if k == 0 else ("quick", "thorough")))
    for k in range(1, 8):
        lo, hi = k << 13, ((k + 1) << 13) - 1
        hs.append(Harness(f"c24_prefix_n{k}", obligation=f"for all hash, rf1<=rf2, n in [{lo},{hi}]: f(h,n,rf1) is a prefix of f(h,n,rf2)",
                          encodes=enc, bounds="whole input space of this slice; unwind 14", timeout_s=3000, tiers=("thorough",)))
    for (lo, hi) in SUB0:
        hs.append(Harness(f"c24_prefix_r{lo}_{hi}", obligation=f"for all hash, rf1<=rf2, n in [{lo},{hi}]: f(h,n,rf1) is a prefix of f(h,n,rf2)",
                          encodes=enc, bounds="whole input space of this slice; unwind 14", timeout_s=3000, tiers=("thorough",)))
    hs += [
        Harness("c24_small_n_all", obligation="n <= 64, all hashes and rf: all shape clauses", encodes=enc, bounds="n<=64; unwind 14", timeout_s=600),
        Harness("c24_vacuity_witness", expect_fail=True, obligation="twin: a 12-element result is reachable", timeout_s=600),
    ]
    return PropSpec("C24", [Unit("c24", generate, hs, jobs=4, workers=3)],
                    assumptions=["dev-profile semantics (overflow checks on) — what Kani models; release wrapping behaviour is only observed by native replay"],
                    outside_claim=["callers of distribute_partition (cluster routing)",
                                   "determinism is not a separate query: the function is pure (no statics, no I/O, no interior state), a two-call equivalence query did not finish in 900 s and was removed"],
                    trusted_base=["kani-compiler 0.68 / CBMC 6.11 / cadical", "the slicer"])
