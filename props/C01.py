"""C01 — acknowledged appends are durable and immediately readable (kernel K1: writer alignment at the seglog layer)."""
from engine.core import Harness, Unit, PropSpec
from engine import units

DISK, MAXD, UNW = 64, 12, 66

# rollback_then_append(H; n1,n2,n3,start,sync_before,rollback_two)
RB_QUICK = [(1, 2, 3, 1, 0, "true", "false"), (1, 2, 3, 4, 0, "false", "true"), (1, 12, 9, 2, 0, "true", "true")]
RB_MORE = [(0, 0, 0, 0, 0, "true", "false"), (1, 5, 12, 12, 7, "false", "false"), (0, 12, 10, 12, 0, "true", "true"),
           (1, 0, 1, 0, 16, "true", "true"), (1, 7, 0, 7, 3, "false", "true"), (1, 3, 3, 3, 0, "false", "false")]
SEQ_QUICK = [(1, 2, 3, 4, 0), (1, 12, 1, 12, 5)]
SEQ_MORE = [(0, 0, 0, 0, 0), (0, 7, 8, 9, 1), (1, 6, 6, 6, 16), (1, 12, 12, 12, 0)]
FULL = [(1, 3, 0), (0, 12, 8)]


def instances():
    out = []
    for grp, lst in (("q", RB_QUICK), ("t", RB_MORE)):
        for (H, a, b, c, s, sb, r2) in lst:
            out.append((grp, f"c01_rollback_h{H}_{a}_{b}_{c}_s{s}_{sb[0]}{r2[0]}", f"rollback_then_append::<{H}>({a}, {b}, {c}, {s}, {sb}, {r2})",
                        f"append A{'; sync' if sb=='true' else ''}; append B{'+C' if r2=='true' else ''}; set_len(B.offset) [rollback]; append C; sync => cursor+buffered == write_offset after every step, "
                        f"fsync follows the data, and a fresh reader finds A and C byte-identical at their returned offsets [H={H}, lengths {a},{b},{c}, start {s}]"))
    for grp, lst in (("q", SEQ_QUICK), ("t", SEQ_MORE)):
        for (H, a, b, c, s) in lst:
            out.append((grp, f"c01_sequence_h{H}_{a}_{b}_{c}_s{s}", f"append_sequence::<{H}>({a}, {b}, {c}, {s})",
                        f"append A,B; flush_writer; append C; sync => contiguous offsets, nothing published before sync, all three readable byte-identical afterwards [H={H}, lengths {a},{b},{c}, start {s}]"))
    for (H, a, s) in FULL:
        out.append(("q" if H == 1 else "t", f"c01_segfull_h{H}_{a}_s{s}", f"segment_full_is_clean::<{H}>({a}, {s})",
                    f"an append that does not fit reports SegmentFull, changes nothing, and the next append lands correctly [H={H}, length {a}, start {s}]"))
    return out


def native_replay(rp, workroot):
    """Harness instance names carry the shape; drive the real seglog crate on a real file with it."""
    import re
    from engine.core import replay_bin
    m = re.match(r"c01_rollback_h(\d)_(\d+)_(\d+)_(\d+)_s(\d+)_([tf])([tf])", rp["harness"])
    if m:
        H, a, b, c, s, sb, r2 = m.groups()
        ok, detail = replay_bin("c01", ["rollback", a, b, c, s, 1 if sb == "t" else 0, 1 if r2 == "t" else 0])
        if ok:
            return ok, detail
    # any scenario: plain append sequences with records below / at / above the real 16 KiB write buffer
    ok2, detail2 = replay_bin("c01", ["sequence"])
    return ok2, detail2


def generate(d):
    lines = "\n".join(f"    fs_harness!(cheap, {n}, {UNW}, {{ {c} }});" for _, n, c, _ in instances())
    return units.seglog_overlay(d, ["seglog/fmodel.rs", "seglog/c01.rs"], consts={"DISK_BYTES": DISK, "MAXD": MAXD, "INSTANCES": lines})


ENC = ("seglog::write::Writer::{append,set_len,sync,flush_writer,prepare_data,write_offset}", "std::io::BufWriter<File>::{write_all,flush,seek}",
       "seglog::read::Reader::read_record (oracle side: fresh reader, Random hint)")
B = (f"segment {DISK} bytes; data lengths and op script concrete per instance (<= {MAXD} bytes), contents symbolic; WRITE_BUF_SIZE scaled to 16 so that the "
     f"buffered and the write-through path of BufWriter are both taken; compression off; unwind {UNW}")


def spec(tier, seed):
    hs = []
    for grp, name, _, obl in instances():
        hs.append(Harness(name, obligation=obl, encodes=ENC, bounds=B, timeout_s=900 if grp == "q" else 1800,
                          tiers=("quick", "thorough") if grp == "q" else ("thorough",)))
    hs.append(Harness("c01_vacuity_witness", expect_fail=True, obligation="twin: file model write reachable", timeout_s=120))
    u = Unit("seglog_c01", generate, hs, kani_flags=("-Z", "stubbing"), jobs=3, workers=4, crate_subdir="seglog", harness_prefix="verif::c01::", playback=False, quick_extra=2)
    return PropSpec("C01", [u], native_replay=native_replay,
                    assumptions=["file model: POSIX regular file, write(2) advances the cursor, pwrite does not; no short writes / IO errors",
                                 "CRC replaced by a GF(2)-linear fold (CRC is C17's subject)", "ReadError::Io / WriteError::Io carry a unit payload"],
                    outside_claim=["Database::read_event/read_stream/read_partition (thread pools, moka cache, MPHF)", "reopen of a whole database",
                                   "sync watermark across segment rollover (WriterSet::rollover / sync_tx; K2 of DESIGN.md, not built)",
                                   "compression on", "real fsync behaviour of the kernel"],
                    trusted_base=["kani-compiler 0.68 / CBMC 6.11 / cadical", "the file model (harness/seglog/fmodel.rs)"])
