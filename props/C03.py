"""C03 — stream and partition scans are exact, ordered and gapless (kernel: the offset-index arithmetic)."""
from engine.core import Harness, Unit, PropSpec, REPO
from engine import gen

SEGITER = REPO / "crates/sierradb/src/bucket/segment/iter.rs"
BITER = REPO / "crates/sierradb/src/bucket/iter.rs"
LEN, UNW = 4, 7


def generate(d):
    rewrites = []
    fns = gen.slice_items(SEGITER, [r"fn\s+new\b", r"fn\s+is_finished\b", r"fn\s+remaining_offsets\b", r"fn\s+skip\b"])
    fns = gen.rewrite_once(fns, "        debug_assert!(\n            offsets.windows(2).all(|w| w[0] <= w[1]),\n            \"offsets must be sorted in ascending order\"\n        );\n", "",
                           "strip: debug_assert on sortedness in SegmentIter::new (the harness assumes strictly increasing offsets)", rewrites)
    impl = gen.slice_item(BITER, r"impl\s+IterConfig\s+for\s+StreamIterConfig\b")
    live = gen.slice_between_text(impl, "async fn try_get_from_live_indexes(", "fn try_get_from_reader_set(", include_end=False, what="live fn")
    expr = gen.slice_between_text(live, "let offsets_index = if matches!(dir, IterDirection::Reverse) && from_position == u64::MAX {", "Some((offsets, offsets_index))", include_end=False, what="index expr")
    inst = "\n".join(f"#[kani::proof]\n#[kani::unwind({UNW})]\nfn c03_{dn}_len{k}() {{ scan(IterDirection::{dv}, {k}); }}" for dn, dv in (("forward", "Forward"), ("reverse", "Reverse")) for k in range(1, LEN + 1))
    h = gen.harness_text("c03/harness.rs").replace("@INSTANCES@", inst).replace("@ITER_FNS@", fns).replace("@INDEX_EXPR@", expr).replace("@LEN@", str(LEN)).replace("@UNW@", str(UNW))
    gen.write_crate(d, "c03-iter", "", "#![allow(unused, dead_code)]\n#![cfg(kani)]\n" + h)
    rewrites.append("slice: SegmentIter::{new,is_finished,remaining_offsets,skip} (bucket/segment/iter.rs) verbatim into a mock SegmentIter with the same fields; "
                    "statement range 'let offsets_index = if ... ;' of StreamIterConfig::try_get_from_live_indexes (bucket/iter.rs; the same expression appears in all four config functions) verbatim")
    return {"rewrites": rewrites, "harness_file": str(d / "src/lib.rs")}


def native_replay(rp, workroot):
    from engine.core import replay_bin
    return replay_bin("c03", [5], crate="replay-cluster")


def spec(tier, seed):
    enc = ("sierradb::bucket::segment::iter::SegmentIter::{new,remaining_offsets,skip,is_finished}", "StreamIterConfig::try_get_from_live_indexes (offsets_index expression)")
    hs = [
        Harness(f"c03_{dn}_len{k}", obligation=f"a segment holding versions vmin..vmin+{k}-1 (symbolic strictly increasing offsets, vmin and start position over full u64, start >= vmin): a {dn} scan's remaining offsets are exactly those "
                + ("at or after the position, ascending" if dn == "forward" else "at or before the position (u64::MAX = from the newest), descending"),
                encodes=enc, bounds=f"len = {k} (all lengths 1..{LEN} instantiated); unwind {UNW}", timeout_s=600)
        for dn in ("forward", "reverse") for k in range(1, LEN + 1)
    ] + [
        Harness("c03_skip_is_bounded", obligation="skip(count) drops exactly count remaining offsets or all of them, never past the end", encodes=enc, bounds=f"len <= {LEN}", timeout_s=300),
        Harness("c03_vacuity_witness", expect_fail=True, obligation="twin", timeout_s=300),
    ]
    u = Unit("c03", generate, hs, jobs=4, workers=1)
    return PropSpec("C03", [u], native_replay=native_replay,
                    assumptions=["the live-index precondition version_min <= from_position (the function returns None otherwise) is assumed", "offsets of one segment are strictly increasing"],
                    outside_claim=["closed-index lookups (bloom filter + MPHF), block-cache boundaries (read_from_cache), segment hand-over in BucketIter::rollover, the stream filter, results after reopen - "
                                   "exercised only by the native reproducer (replay-cluster c03: every start position, both directions, 1 and 3 segments), which is not a solver check",
                                   "advance_offsets_index (transaction de-duplication)"],
                    trusted_base=["kani-compiler 0.68 / CBMC 6.11 / cadical", "the slicers"])
