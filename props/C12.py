"""C12 — replicas apply replicated writes in sequence order, each at most once (the ordered buffer)."""
from engine.core import Harness, Unit, PropSpec, REPO
from engine import gen

SRC = REPO / "crates/sierradb-cluster/src/write/ordered_queue.rs"
INST = [("c12_history_3", 3, ("quick", "thorough"), 900), ("c12_history_4", 4, ("thorough",), 2400), ("c12_history_5", 5, ("thorough",), 3600)]


def generate(d):
    rewrites = []
    src = gen.strip_test_mods(SRC.read_text())
    src = gen.rewrite_once(src, "use std::collections::{BTreeMap, btree_map::Entry};", "use shimmap::{BTreeMap, btree_map::Entry};",
                           "container: std BTreeMap -> array-backed shimmap::BTreeMap (capacity 6)", rewrites)
    inst = "\n".join(f"#[kani::proof]\n#[kani::unwind(10)]\nfn {n}() {{ history({k}); }}" for n, k, _, _ in INST)
    lib = ("#![allow(unused, dead_code)]\n#![cfg(kani)]\n// ---- verbatim: crates/sierradb-cluster/src/write/ordered_queue.rs (tests stripped, BTreeMap import redirected)\n" + src +
           "\n// ---- harness\n" + gen.harness_text("c12/harness.rs").replace("@INSTANCES@", inst))
    gen.write_crate(d, "c12-queue", 'shimmap = { path = "%s" }\nthiserror = "2.0"' % gen.mock("shimmap"), lib)
    rewrites.append("include: ordered_queue.rs verbatim; mock buffered write W = (transaction id, replier count) implementing OrderedValue like BufferedWrite (key_eq = same transaction, merge = concatenate repliers)")
    return {"rewrites": rewrites, "harness_file": None}


ENC = ("OrderedQueue::{new,insert,pop,progress_to,next}",)


def native_replay(rp, workroot):
    from engine.core import replay_bin
    descs = " ".join(f["description"] for f in rp["failed_checks"])
    if "conflicting write changed the buffer" in descs:
        return replay_bin("c12", ["conflict_evicts"], crate="replay-cluster")
    if "merging a duplicate needs no room" in descs:
        return replay_bin("c12", ["merge_evicts"], crate="replay-cluster")
    if "refused as Full instead of being merged" in descs:
        return replay_bin("c12", ["merge_full"], crate="replay-cluster")
    return None, "no native reproducer for this obligation"


def spec(tier, seed):
    hs = [
        Harness("c12_insert_step", obligation="one insert(key, write) into an ARBITRARY queue state (limit 1..3, keys < 8, any next): handed out for application iff key == next (merged with a buffered duplicate); "
                "Stale iff key < next; Conflict iff a different transaction is buffered at that key; Stale/Conflict/Full leave the buffer unchanged and hand the write back; len <= limit; "
                "eviction only of the greatest key, only for a smaller NEW key, and the evicted write is handed back; duplicates are merged without eviction",
                encodes=ENC, bounds="limit <= 3, keys < 8, one step from any state; unwind 10", timeout_s=900),
        Harness("c12_pop_progress_step", obligation="pop returns exactly the write buffered at next and removes it; after progress_to(n) any write below n is refused as Stale",
                encodes=ENC, bounds="limit <= 3, keys < 8; unwind 10", timeout_s=600),
    ]
    for n, k, tiers, to in INST:
        hs.append(Harness(n, obligation=f"every delivery order of {k} writes (keys < 8, duplicates allowed) from new(0): writes are handed out for application strictly in sequence order, each sequence at most once; buffer <= limit",
                          encodes=ENC, bounds=f"{k} deliveries; unwind 10", timeout_s=to, tiers=tiers))
    hs.append(Harness("c12_vacuity_witness", expect_fail=True, obligation="twin", timeout_s=300))
    u = Unit("c12", generate, hs, jobs=4, workers=2)
    return PropSpec("C12", [u], native_replay=native_replay,
                    assumptions=["std BTreeMap replaced by an array-backed map with the same API subset", "BufferedWrite abstracted to (transaction id, replier count)"],
                    outside_claim=["TimeoutOrderedQueue timers and detect_and_handle_gaps sweep (tokio time)", "entries left below `next` by progress_to over a multi-event transaction (removed only by the timeout sweep)",
                                   "the database append itself (C02/C25)", "actor mailbox ordering"],
                    trusted_base=["kani-compiler 0.68 / CBMC 6.11 / cadical", "mocks/shimmap"])
