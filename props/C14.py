"""C14 — every partition has exactly min(rf, N) distinct replicas, the same on every node."""
from engine.core import Harness, Unit, PropSpec
from props import _topo


def spec(tier, seed):
    P = _topo.PARAMS
    enc = ("TopologyManager::calculate_partition_replicas", "TopologyManager::calculate_assigned_partitions")
    hs = []
    for (n, b) in _topo.PAIRS:
        q = (n, b) in _topo.QUICK_PAIRS
        hs.append(Harness(f"c14_replica_sets_n{n}_b{b}", obligation=f"{n} node(s) all known, {b} bucket(s): every partition has exactly min(rf,N) pairwise distinct replicas starting at the bucket's primary node, and a node owns a partition iff it is in its replica set",
                          encodes=enc, bounds=f"N={n}, buckets={b} (24 pairs instantiated), partitions <= {P['PMAX']}, rf <= {P['RMAX']}; unwind {P['UNW']}", timeout_s=900 if q else 1800,
                          tiers=("quick", "thorough") if q else ("thorough",)))
    hs += [
          Harness("c14_ownership_large_n", obligation="one bucket / one partition, cluster sizes up to 1024 (covers N >= 256): node i owns the partition iff i < min(rf, N) computed in wide arithmetic",
                  encodes=enc, bounds=f"N <= 1024, rf <= {P['RMAX']}", timeout_s=1500),
          Harness("topo_vacuity_witness", expect_fail=True, obligation="twin", timeout_s=300)]
    u = Unit("topo", _topo.generate, hs, jobs=4, workers=3, quick_extra=2)

    def native_replay(rp, workroot):
        from engine.core import replay_bin
        if rp["harness"] == "c14_ownership_large_n":
            return replay_bin("c14", ["large_n"], crate="replay-cluster")
        return None, "no native reproducer"

    return PropSpec("C14", [u], native_replay=native_replay,
                    assumptions=["generic cluster key instantiated with u32", "HashMap/HashSet -> array-backed shims", "the computation is a pure function of (N, buckets, partitions, rf, known nodes): 'same inputs => same result on every node' holds by construction and is not separately checked"],
                    outside_claim=["order of membership events (connect / heartbeat / timeout / ownership response) reaching a node - TopologyManager state machine over libp2p types", "get_available_replicas ordering", "gossip transport"],
                    trusted_base=["kani-compiler 0.68 / CBMC 6.11 / cadical", "the slicer", "mocks/shimmap"])
