"""C26 — the write circuit breaker is panic-free and bounds half-open probes."""
from engine.core import Harness, Unit, PropSpec, REPO
from engine import gen

SRC = REPO / "crates/sierradb-cluster/src/circuit_breaker.rs"

# (name, main_ops, depth, sequential, main op mask, interfering op mask, tiers, timeout)   ops: bit0 should_allow_request, bit1 record_success, bit2 record_failure, bit3 estimated_recovery_time
INST = [
    ("c26_seq_5ops", 5, 0, "true", 0b1111, 0, ("quick", "thorough"), 900),
    ("c26_seq_7ops", 7, 0, "true", 0b1111, 0, ("thorough",), 3000),
    ("c26_conc_2ops_d1", 2, 1, "false", 0b0111, 0b0111, ("quick", "thorough"), 900),
    ("c26_conc_est_d1", 2, 1, "false", 0b1100, 0b0100, ("quick", "thorough"), 900),
    ("c26_conc_3ops_d1", 3, 1, "false", 0b0111, 0b0111, ("thorough",), 3000),
    ("c26_conc_4ops_d1", 4, 1, "false", 0b0111, 0b0111, ("thorough",), 3600),
]


def native_replay(rp, workroot):
    from engine.core import replay_bin
    if rp["harness"].startswith("c26_seq"):
        # bounded native search with the same oracles over the real source file (single thread, real clock)
        return replay_bin("c26", ["search"])
    return None, "interleaving counterexample: natively reproducible only under a forced schedule (no hooks in /repo); reported from the solver trace"


def generate(d):
    rewrites = []
    src = gen.strip_test_mods(SRC.read_text())
    inst = "\n".join(f"cb_harness!({n}, 12, {{ run({m}, {dp}, {sq}, {mm}, {im}); }});" for n, m, dp, sq, mm, im, _, _ in INST)
    h = gen.harness_text("c26/harness.rs").replace("@INSTANCES@", inst)
    lib = "#![allow(unused, dead_code, static_mut_refs)]\n#![cfg(kani)]\n// ---- verbatim: crates/sierradb-cluster/src/circuit_breaker.rs (tests stripped)\n" + src + "\n// ---- harness\n" + h
    gen.write_crate(d, "c26-breaker", "", lib)
    rewrites.append("include: circuit_breaker.rs verbatim (std only); stubs: Atomic<u8/u32/u64>::{load,store,fetch_add,compare_exchange} -> SC operations preceded by a schedule point; "
                    "current_timestamp -> arbitrary non-decreasing clock (also a schedule point)")
    return {"rewrites": rewrites, "harness_file": None}


ENC = ("WriteCircuitBreaker::{new,should_allow_request,record_success,record_failure,estimated_recovery_time,current_state}",
       "WriteCircuitBreaker::{transition_to_open,transition_to_half_open,transition_to_closed}", "current_timestamp (stubbed clock)")


def spec(tier, seed):
    hs = []
    for n, m, dp, sq, mm, im, tiers, to in INST:
        if sq == "true":
            obl = (f"single thread, {m} operations chosen symbolically, symbolic config (threshold<=3, max_calls<=2, success_threshold<=2, timeout) and clock steps: no panic/overflow; "
                   "Closed->Open only by a failure report with >= threshold consecutive failures; admitted requests per half-open episode <= half_open_max_calls; estimated recovery <= timeout")
        else:
            obl = (f"main thread runs {m} symbolic operations (op mask {mm:04b}); at every atomic access / clock read up to {dp} nested complete operations (mask {im:04b}) of other threads may run: no panic/overflow; "
                   "Closed->Open only after >= threshold failure reports; admitted requests per half-open episode <= half_open_max_calls")
        hs.append(Harness(n, obligation=obl, encodes=ENC, bounds=f"{m} main operations, nesting depth {dp}; config threshold<=3, max_calls<=2, success_threshold<=2, clock steps <= 2^20 ms; unwind 12",
                          timeout_s=to, tiers=tiers))
    hs.append(Harness("c26_vacuity_witness", expect_fail=True, obligation="twin: Open state reachable through the stubs", timeout_s=300))
    u = Unit("c26", generate, hs, kani_flags=("-Z", "stubbing"), jobs=4, workers=2, playback=False)
    return PropSpec("C26", [u], native_replay=native_replay,
                    assumptions=["sequentially consistent atomics (the code uses Acquire/Release/AcqRel)", "context switches are properly nested (an interrupting thread runs complete operations); non-LIFO interleavings are outside the claim",
                                 "the clock is arbitrary but non-decreasing across all reads of all threads"],
                    outside_claim=["nesting depth 2 (two interrupting threads stacked): the 2-operation query ran CBMC out of memory (14 GB) and was removed", "non-LIFO interleavings", "memory orders weaker than SC", "more than the stated number of operations"],
                    trusted_base=["kani-compiler 0.68 / CBMC 6.11 / cadical", "the atomic/clock stubs in harness/c26/harness.rs"])
