"""C13 — storage placement agrees with cluster routing for every validated configuration."""
from engine.core import Harness, Unit, PropSpec
from props import _topo


def spec(tier, seed):
    P = _topo.PARAMS
    hs = []
    for (n, b) in _topo.PAIRS:
        q = (n, b) in _topo.QUICK_PAIRS
        hs.append(Harness(f"c13_placement_n{n}_b{b}",
                          obligation=f"{n} node(s), {b} bucket(s); every node index, partition count <= {P['PMAX']} and replication factor <= {P['RMAX']} accepted by validation, every partition: the node opens the partition's bucket "
                                     "for storage (AppConfig::assigned_buckets/assigned_partitions) iff the topology routes the partition to it (calculate_assigned_partitions)",
                          encodes=("AppConfig::assigned_buckets", "AppConfig::assigned_partitions", "AppConfig::node_count", "TopologyManager::calculate_assigned_partitions"),
                          bounds=f"N={n}, buckets={b} (all 24 pairs N<=4, B<=6 are instantiated; quick runs 6 of them), partitions <= {P['PMAX']}, rf <= {P['RMAX']}; unwind {P['UNW']}",
                          timeout_s=600 if q else 1800, tiers=("quick", "thorough") if q else ("thorough",)))
    hs.append(Harness("topo_vacuity_witness", expect_fail=True, obligation="twin", timeout_s=300))
    u = Unit("topo", _topo.generate, hs, jobs=4, workers=3, quick_extra=2)
    def native_replay(rp, workroot):
        from engine.core import replay_bin
        return replay_bin("c13", [], crate="replay-cluster")

    return PropSpec("C13", [u], native_replay=native_replay,
                    assumptions=["the placement-relevant cross-field rules of AppConfig::validate are restated in the harness (index < N, partitions >= N, partitions >= buckets, all non-zero)",
                                 "HashSet<BucketId/PartitionId> replaced by a 64-bit bit set (ids < 64), HashMap by an array-backed shim", "explicit bucket.ids / partition.ids overrides are not used (None)"],
                    outside_claim=["clusters larger than the stated bounds ('sampled for large' is not done: no sampling in this technique)", "explicit id lists in the configuration", "main.rs wiring"],
                    trusted_base=["kani-compiler 0.68 / CBMC 6.11 / cadical", "the slicer", "mocks/shimmap"])
