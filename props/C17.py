"""C17 — segment-log records round-trip and corruption is always detected (real CRC32)."""
from engine.core import Harness, Unit, PropSpec
from engine import units

DISK, MAXD, UNW = 48, 12, 50
PATHS = {0: "random", 1: "sequential", 2: "iter", 3: "parse"}

# (H, n, start, path)
RT_Q = [(1, 3, 0, 0), (1, 3, 0, 1), (1, 3, 0, 3), (1, 12, 5, 0), (0, 0, 0, 1)]
RT_T = [(0, 7, 3, 0), (1, 4, 0, 0), (1, 8, 0, 1), (0, 12, 0, 3), (1, 0, 0, 0), (1, 12, 5, 1), (1, 12, 5, 3), (1, 7, 0, 0)]
FB_Q = [(1, 3, 0, 0), (1, 3, 0, 1), (1, 3, 0, 3)]
FB_T = [(0, 4, 0, 0), (1, 7, 2, 1), (1, 7, 2, 3), (1, 0, 0, 1), (1, 3, 0, 2), (1, 8, 0, 0)]
# (H, n, start, path, bit_lo, bit_hi): a one-bit range = concrete flipped bit (Reader paths), wider = symbolic (parse_record)
FL_Q = [(1, 0, 0, 3, 0, 32), (1, 0, 0, 0, 0, 1), (1, 0, 0, 1, 0, 1), (1, 0, 0, 0, 1, 2), (1, 0, 0, 1, 2, 3), (1, 2, 0, 0, 4, 5), (1, 2, 0, 1, 31, 32)]
FL_T = [(1, 3, 0, 3, 0, 32), (0, 4, 0, 3, 0, 32), (0, 0, 0, 3, 0, 32), (1, 7, 0, 3, 0, 32)] + \
       [(1, 2, 0, p, b, b + 1) for p in (0, 1, 2) for b in (0, 1, 2, 4, 5, 7, 8, 16, 30, 31)]
# (H, n, start, path, straddle)
BU_Q = [(1, 3, 0, 3, "false"), (1, 3, 0, 3, "true")]
BU_T = [(1, 3, 0, 0, "false"), (1, 3, 0, 1, "false"), (0, 4, 0, 3, "false"), (1, 7, 0, 3, "false"), (1, 3, 0, 0, "true")]
# (H, n, start, path, cut): cut -1 = symbolic visible length (parse_record), >= 0 = concrete (Reader paths)
TR_Q = [(1, 3, 0, 3, -1), (1, 3, 0, 0, 4), (1, 3, 0, 1, 8), (1, 3, 0, 0, 11), (1, 3, 0, 1, 11), (1, 3, 0, 2, 9)]
TR_T = [(0, 7, 0, 3, -1), (1, 12, 3, 3, -1)] + [(1, 3, 0, p, c) for p in (0, 1, 2) for c in (0, 1, 4, 7, 8, 9, 10, 11)]


def instances():
    out = []
    for grp, lst in (("q", RT_Q), ("t", RT_T)):
        for (H, n, s, p) in lst:
            out.append((grp, f"c17_roundtrip_h{H}_{n}_s{s}_{PATHS[p]}", f"roundtrip::<{H}>({n}, {s}, {p})",
                        f"append(header,data); sync => the {PATHS[p]} read path returns the record byte-identical (iteration then ends) [H={H}, {n} data bytes symbolic, start {s}]", False))
    obl = "one flipped bit at ANY position of crc|header|data (symbolic position) => the read path reports an error, never valid data"
    for grp, lst in (("q", FB_Q), ("t", FB_T)):
        for (H, n, s, p) in lst:
            out.append((grp, f"c17_flipbody_h{H}_{n}_s{s}_{PATHS[p]}", f"bitflip_body::<{H}>({n}, {s}, {p})", f"{obl} [path {PATHS[p]}, H={H}, {n} data bytes symbolic, start {s}]", False))
    for grp, lst in (("q", BU_Q), ("t", BU_T)):
        for (H, n, s, p, st) in lst:
            fam = "burststraddle" if st == "true" else "burst"
            where = "starting inside the stored CRC field (may reach into header/data)" if st == "true" else "entirely inside header|data"
            out.append((grp, f"c17_{fam}_h{H}_{n}_s{s}_{PATHS[p]}", f"burst_body::<{H}>({n}, {s}, {p}, {st})",
                        f"burst error of <= 32 bits (symbolic start bit and 32-bit pattern) {where} => never valid data [path {PATHS[p]}, H={H}, {n} data bytes symbolic]", True))
    for grp, lst in (("q", TR_Q), ("t", TR_T)):
        for (H, n, s, p, c) in lst:
            cs = "sym" if c < 0 else str(c)
            out.append((grp, f"c17_trunc_h{H}_{n}_s{s}_{PATHS[p]}_c{cs}", f"truncated::<{H}>({n}, {s}, {p}, {c})",
                        f"only a strict prefix of the record visible ({'symbolic cut' if c < 0 else f'cut after {c} bytes'}: flushed offset there / zeros after the cut) => never valid data [path {PATHS[p]}, H={H}, {n} data bytes symbolic]", c < 0))
    for grp, lst in (("q", FL_Q), ("t", FL_T)):
        for (H, n, s, p, lo, hi) in lst:
            out.append((grp, f"c17_fliplen_h{H}_{n}_s{s}_{PATHS[p]}_b{lo}_{hi}", f"bitflip_len::<{H}>({n}, {s}, {p}, {lo}, {hi})",
                        f"one flipped bit at a symbolic position in [{lo},{hi}) of the 4-byte length field (a second record follows) => never valid data and no panic [path {PATHS[p]}, H={H}, {n} data bytes symbolic]", hi - lo > 1))
    seen, uniq = set(), []
    for x in out:  # quick entries come first within each family, so a duplicate keeps its quick membership
        if x[1] not in seen:
            seen.add(x[1])
            uniq.append(x)
    return uniq


def generate(d):
    lines = "\n".join(f"    fs_harness!(real, {n}, {UNW}, {{ {c} }});" for _, n, c, _, _ in instances())
    return units.seglog_overlay(d, ["seglog/fmodel.rs", "seglog/c17.rs"], consts={"DISK_BYTES": DISK, "MAXD": MAXD, "INSTANCES": lines})


ENC = ("seglog::parse::parse_record", "seglog::read::Reader::{read_record,read_record_sequential}", "seglog::read::Iter::next_record",
       "seglog::read::ReadAheadBuf::{read,fill}", "seglog::write::Writer::{append,sync}", "seglog::calculate_crc32c", "crc32fast::Hasher (baseline tables)")
B = (f"segment {DISK} bytes; data <= {MAXD} bytes with length concrete per instance, contents symbolic; optimistic (payload <= 4), fallback (<= 8) and large (> 8) "
     f"random-read paths selected by the scaled constants OPTIMISTIC_DATA_SIZE=4 / PAGE_SIZE=8; compression off; unwind {UNW}")


def native_replay(rp, workroot):
    import re
    from engine.core import replay_bin
    m = re.match(r"c17_(fliplen|flipbody|burststraddle|burst|trunc|roundtrip)_h(\d)_(\d+)_s(\d+)_([a-z]+)", rp["harness"])
    if not m:
        return None, "no native reproducer"
    fam, H, n, s, path = m.groups()
    flat = [b for v in rp.get("concrete_vals", []) for b in v]
    if fam in ("fliplen", "trunc") and flat:
        # the solver's concrete values, in kani::any() order: data[12], header[H], then the flipped bit (usize) / the cut (u64)
        need = MAXD + int(H) + 8
        if len(flat) >= need:
            data, hdr = flat[:MAXD], flat[MAXD:MAXD + int(H)]
            val = int.from_bytes(bytes(flat[MAXD + int(H):need]), "little")
            return replay_bin("c17", [fam + "_v", H, n, s, path, bytes(data).hex(), bytes(hdr).hex() or "00", val])
    if not fam.startswith("burst"):
        return replay_bin("c17", [fam, H, n, s, path])
    # the solver's concrete values, in kani::any() order: data[12], header[H], s (usize), pat (u32)
    need = MAXD + int(H) + 8 + 4
    if len(flat) < need:
        return None, f"concrete playback values unavailable ({len(flat)} bytes)"
    data, hdr = flat[:MAXD], flat[MAXD:MAXD + int(H)]
    sb = flat[MAXD + int(H):MAXD + int(H) + 8]
    pb = flat[MAXD + int(H) + 8:need]
    sval = int.from_bytes(bytes(sb), "little")
    pat = int.from_bytes(bytes(pb), "little")
    return replay_bin("c17", ["burst", H, n, s, path, bytes(data).hex(), bytes(hdr).hex() or "00", sval, pat])


def spec(tier, seed):
    hs = []
    for grp, name, _, obl, wv in instances():
        hs.append(Harness(name, obligation=obl, encodes=ENC, bounds=B, timeout_s=900 if grp == "q" else 2400, want_values=wv,
                          tiers=("quick", "thorough") if grp == "q" else ("thorough",)))
    hs.append(Harness("c17_vacuity_witness", expect_fail=True, obligation="twin: file model reachable", timeout_s=120))
    u = Unit("seglog_c17", generate, hs, kani_flags=("-Z", "stubbing"), jobs=2 if tier == "thorough" else 3, workers=4 if tier == "thorough" else 5, crate_subdir="seglog", harness_prefix="verif::c17::", playback=False)
    return PropSpec("C17", [u], native_replay=native_replay,
                    assumptions=["file model: POSIX regular file; no short writes / IO errors", "crc32fast baseline (table) implementation instead of the cpuid-dispatched SIMD one",
                                 "ReadError::Io / WriteError::Io carry a unit payload"],
                    outside_claim=["payloads longer than 12 bytes, the real 2 KiB / 4 KiB / 64 KiB buffer sizes", "compressed records (zstd is FFI)",
                                   "errors wider than 32 bits or touching two records", "Writer::open recovery scan (decided under C05)"],
                    trusted_base=["kani-compiler 0.68 / CBMC 6.11 / cadical", "the file model"])
