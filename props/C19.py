"""C19 — appends that fit an empty segment never fail for lack of space (size estimate + rollover decision)."""
from engine.core import Harness, Unit, PropSpec, REPO
from engine import gen

WTP = REPO / "crates/sierradb/src/writer_thread_pool.rs"
SEG = REPO / "crates/sierradb/src/bucket/segment.rs"
NEV, UNW = 2, 6


def generate(d):
    rewrites = []
    fn = gen.slice_item(WTP, r"fn\s+handle_append_events\b")
    sl = gen.slice_between_text(fn, "let write_offset = writer_set.writer.write_offset();", "let bytes_since_sync = writer_set.bytes_since_sync;", include_end=False, what="estimate+decision")
    consts = gen.slice_between(SEG, "// Segment header constants", "pub const COMMIT_SIZE: usize")
    h = gen.harness_text("c19/harness.rs").replace("@SLICE@", sl).replace("@CONSTS@", consts).replace("@NEV@", str(NEV)).replace("@UNW@", str(UNW))
    gen.write_crate(d, "c19-sizes", "", "#![allow(unused, dead_code, static_mut_refs)]\n#![cfg(kani)]\n" + h)
    rewrites.append("slice: the statement range of Worker::handle_append_events from 'let write_offset = ...' up to (excluding) 'let bytes_since_sync = ...' (size estimate, EventsExceedSegmentSize test, rollover decision) verbatim, "
                    "and the size constants of bucket/segment.rs verbatim; mock WriterSet {writer.write_offset, compression, segment_size, rollover()}, events as field lengths, reply recorder; "
                    "stored-size model from the documented record layout and the zstd worst-case bound (see harness header)")
    return {"rewrites": rewrites, "harness_file": None}


def native_replay(rp, workroot):
    from engine.core import replay_bin
    # single-event case: one big incompressible event; multi-event case: many events (real zstd adds ~13 bytes per event,
    # the model allows the documented worst case, so a per-transaction allowance only shows natively with dozens of events)
    # bounded native search over payload sizes: large (always compressed), and the band where the variable part of an
    # event is below seglog's compression threshold while the whole encoded record is above it (seed C19-2)
    cands = [(1000, 1), (100, 1), (60, 1)] if rp["harness"] == "c19_one_event" else [(160, 40), (100, 2), (60, 3)]
    last = (False, "no candidate run")
    for plen, nev in cands:
        ok, detail = replay_bin("c19", [plen, nev], crate="replay-cluster", timeout=3000)
        if ok:
            return ok, f"payload {plen} x {nev} event(s): " + detail
        last = (ok, detail) if ok is None or last[0] is not None else last
    return last

def spec(tier, seed):
    enc = ("sierradb::writer_thread_pool::Worker::handle_append_events (estimate + rollover decision)", "sierradb::bucket::segment::{EVENT_HEADER_SIZE,COMMIT_SIZE,SEGMENT_HEADER_SIZE}")
    hs = [
        Harness("c19_one_event", obligation="single-event transaction, any field lengths (<= 100 kB each), compression on/off with ANY compressed length within the zstd worst case, any segment size 4 KiB..4 MiB and any fill level: "
                "unless rejected up front as EventsExceedSegmentSize, a transaction whose stored size fits an empty segment fits the segment the decision leaves it in (no SegmentFull that would repeat on every retry)",
                encodes=enc, bounds="1 event; lengths <= 100000; segment 4 KiB..4 MiB; unwind 6", timeout_s=900),
        Harness("c19_two_events", obligation="same for a two-event transaction (with commit record)", encodes=enc, bounds="2 events; unwind 6", timeout_s=900),
        Harness("c19_vacuity_witness", expect_fail=True, obligation="twin: rollover branch reachable", timeout_s=300),
    ]
    u = Unit("c19", generate, hs, jobs=3, workers=1)
    return PropSpec("C19", [u], native_replay=native_replay,
                    assumptions=["stored-size model: an uncompressed event record occupies exactly EVENT_HEADER_SIZE + field lengths, a commit COMMIT_SIZE; a compressed record stores 13 + c bytes with c anywhere in [1, n + n/256 + 64] "
                                 "(upper bound of ZSTD_compressBound below 128 KiB); seglog rejects iff offset + len > segment size (all three confirmed by the native reproducer on the real database)",
                                 "the documented EventsExceedSegmentSize rejection (estimate does not fit an empty segment) is not counted as a violation"],
                    outside_claim=["zstd itself (FFI)", "more than 2 events per transaction", "field lengths above 100 kB / segments above 4 MiB", "the retry loop of clients"],
                    trusted_base=["kani-compiler 0.68 / CBMC 6.11 / cadical", "the statement-range slicer", "the stored-size model in harness/c19/harness.rs"])
