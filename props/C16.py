"""C16 — concurrent conflicting appends are serialised (routing kernel: every bucket has exactly one writer thread)."""
from engine.core import Harness, Unit, PropSpec
from props import _topo


def spec(tier, seed):
    P = _topo.PARAMS
    enc = ("sierradb::writer_thread_pool::bucket_id_to_thread_id",)
    hs = [Harness("c16_bucket_to_thread_routing", obligation="for every list of <= 6 distinct bucket ids (symbolic), thread count <= len: each listed bucket maps to exactly one thread id < threads (the value both Worker::new's ownership filter and append_events' routing compute), monotone and gap-free in list position; a bucket id that is not listed is routed to no thread",
                  encodes=enc, bounds=f"<= {P['LMAX']} buckets, symbolic ids and thread count; unwind {P['UNW']}", timeout_s=900),
          Harness("c16_every_thread_owns_a_bucket", obligation="for every bucket count <= 6 and every thread count <= bucket count: every writer thread owns at least one bucket and owner counts differ by at most one",
                  encodes=enc, bounds=f"bucket lists [10..10+len), len <= {P['LMAX']}, all thread counts (concrete enumeration inside one harness)", timeout_s=900),
          Harness("topo_vacuity_witness", expect_fail=True, obligation="twin", timeout_s=300)]
    u = Unit("topo", _topo.generate, hs, jobs=4, workers=1)
    return PropSpec("C16", [u],
                    assumptions=["serialisation itself is structural: one worker loop per bucket validates and writes; the harness decides that routing and ownership agree on that one thread"],
                    outside_claim=["the race itself (many clients, real threads): Kani has no concurrency", "atomicity of validate-then-write inside the worker loop (C02's step)", "bucket counts beyond 6 / u16-width arithmetic of (buckets_per_thread + 1) * extra"],
                    trusted_base=["kani-compiler 0.68 / CBMC 6.11 / cadical", "the slicer"])
