"""C08 — the confirmed watermark is sound, monotone and complete (in-memory algorithm; persistence outside)."""
from engine.core import Harness, Unit, PropSpec, REPO
from engine import gen

SRC = REPO / "crates/sierradb-cluster/src/confirmation.rs"
V, UNW = 4, 9
INST = [("c08_history_2", 2, ("quick", "thorough"), 600), ("c08_history_3", 3, ("quick", "thorough"), 900), ("c08_history_4", 4, ("quick", "thorough"), 1500), ("c08_history_5", 5, ("thorough",), 3000),
        ("c08_history_6", 6, ("thorough",), 3600)]


def generate(d):
    rewrites = []
    items = gen.slice_items(SRC, [r"struct\s+UnconfirmedEventInfo\b", r"struct\s+PartitionConfirmationState\b", r"impl\s+PartitionConfirmationState\b",
                                  r"struct\s+AtomicWatermark\b", r"impl\s+AtomicWatermark\b"])
    items = gen.rewrite_once(items, "#[derive(Debug, Clone, Encode, Decode)]", "#[derive(Debug, Clone)]", "strip: bincode Encode/Decode derives (serialisation is outside the claim)", rewrites, count=2)
    items = gen.rewrite_once(items, "#[derive(Debug, Encode, Decode)]", "#[derive(Debug)]", "strip: bincode derives on AtomicWatermark", rewrites)
    inst = "\n".join(f"#[kani::proof]\n#[kani::unwind({UNW})]\n#[kani::stub(std::time::SystemTime::now, fixed_now)]\nfn {n}() {{ history({k}); }}" for n, k, _, _ in INST)
    inst += f"\n#[kani::proof]\n#[kani::unwind({UNW})]\n#[kani::stub(std::time::SystemTime::now, fixed_now)]\nfn c08_inductive_step() {{ inductive_step(); }}"
    h = gen.harness_text("c08/harness.rs").replace("@INSTANCES@", inst).replace("@V@", str(V)).replace("@UNW@", str(UNW))
    lib = """#![allow(unused, dead_code)]
#![cfg(kani)]
use std::sync::Arc;
use std::sync::atomic::{AtomicU64, Ordering};
use std::time::{Duration, SystemTime, UNIX_EPOCH};
use shimmap::direct::BTreeMap;
type PartitionId = u16;
macro_rules! info { ($($t:tt)*) => {{}}; }
// ---- verbatim from crates/sierradb-cluster/src/confirmation.rs
""" + items + "\n// ---- harness\n" + h
    gen.write_crate(d, "c08-confirmation", 'shimmap = { path = "%s" }' % gen.mock("shimmap"), lib)
    rewrites.append("slice: UnconfirmedEventInfo, PartitionConfirmationState (+impl), AtomicWatermark (+impl) verbatim; std BTreeMap<u64,_> -> direct-indexed shimmap::direct::BTreeMap (slot = key, keys < 8); "
                    "tracing::info! -> empty; stub SystemTime::now -> arbitrary instant")
    return {"rewrites": rewrites, "harness_file": None}


ENC = ("PartitionConfirmationState::{new,update_confirmation}", "AtomicWatermark::{new,get,advance,can_read}")


def native_replay(rp, workroot):
    from engine.core import replay_bin
    descs = " ".join(f["description"] for f in rp["failed_checks"])
    if "add with overflow" in descs:
        return replay_bin("c08", ["attempts"], crate="replay-cluster")
    if rp["harness"].startswith("c08_history") or rp["harness"] == "c08_inductive_step":
        # bounded native search over the real type with the harness's own oracle (every history of <= 4 reports)
        return replay_bin("c08", ["search"], crate="replay-cluster")
    return None, "no native reproducer for this obligation"


def spec(tier, seed):
    hs = []
    for n, k, tiers, to in INST:
        hs.append(Harness(n, obligation=f"from new(): every sequence of {k} updates (version in 1..={V}, count in 0..=rf, any rf in 1..=12, any order, duplicates, stale lower counts): after EVERY update the watermark is "
                          "monotone, <= and == the longest prefix whose best reported count reaches quorum; return value tells whether it advanced; no panic",
                          encodes=ENC, bounds=f"{k} updates, versions <= {V}, rf <= 12; unwind {UNW}", timeout_s=to, tiers=tiers))
    hs.append(Harness("c08_inductive_step", obligation="one update from an ARBITRARY state satisfying the representation invariant (keys above the watermark, key == version, arbitrary counters incl. attempts = 255): no panic, monotone, sound, invariant re-established",
                      encodes=ENC, bounds=f"versions <= {V}, watermark <= 2; unwind {UNW}", timeout_s=900))
    hs.append(Harness("c08_atomic_watermark", obligation="AtomicWatermark::advance is max(current,new) and reports the previous value; can_read(s) <=> s < watermark; all u64", encodes=ENC, bounds="none", timeout_s=300))
    hs.append(Harness("c08_vacuity_witness", expect_fail=True, obligation="twin", timeout_s=300))
    u = Unit("c08", generate, hs, kani_flags=("-Z", "stubbing"), jobs=4, workers=2, playback=False)
    return PropSpec("C08", [u], native_replay=native_replay,
                    assumptions=["std BTreeMap<u64,_> replaced by a direct-indexed map with the same API subset (keys < 8 >= versions in play)", "the clock returns an instant at or after the epoch"],
                    outside_claim=["persistence: temp-file/rename sequence of persist_bucket_state and initialize()/load_bucket_state (tokio::fs, crash points)", "admin_skip_event", "more than the stated number of updates / versions"],
                    trusted_base=["kani-compiler 0.68 / CBMC 6.11 / cadical", "the slicer", "mocks/shimmap"])
