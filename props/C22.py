"""C22 — the RESP API behaves like the event-store model (ONE kernel: EMAPPEND's per-event version reconstruction)."""
from engine.core import Harness, Unit, PropSpec, REPO
from engine import gen

SRC = REPO / "crates/sierradb-server/src/request/emappend.rs"
N, UNW = 3, 10


def generate(d):
    rewrites = []
    sl = gen.slice_between(SRC, "let mut stream_current_version = result.stream_versions;", "events.reverse();")
    h = gen.harness_text("c22/harness.rs").replace("@SLICE@", sl).replace("@N@", str(N)).replace("@UNW@", str(UNW))
    gen.write_crate(d, "c22-emappend", 'shimmap = { path = "%s" }' % gen.mock("shimmap"), "#![allow(unused, dead_code)]\n#![cfg(kani)]\n" + h)
    rewrites.append("slice: the statement block 'let mut stream_current_version = result.stream_versions; ... events.reverse();' of EMAppend::handle_request verbatim into a function whose inputs are "
                    "the (event id, timestamp, stream) triples and a mock AppendResult; HashMap -> shimmap; StreamId -> small Copy id; SmallVec input -> Vec (only into_iter().rev() is used)")
    return {"rewrites": rewrites, "harness_file": str(d / "src/lib.rs")}


def spec(tier, seed):
    hs = [
        Harness("c22_emappend_versions", obligation=f"{N} events over two streams (symbolic assignment), start versions over full u64, a consistent cluster reply (stream_versions[s] = last version of s): no panic (debug arithmetic) and "
                "the response lists the events in order with stream versions start, start+1, ... per stream", encodes=("EMAppend::handle_request (version reconstruction block)",),
                bounds=f"{N} events, 2 streams; unwind {UNW}", timeout_s=900),
        Harness("c22_vacuity_witness", expect_fail=True, obligation="twin", timeout_s=300),
    ]
    u = Unit("c22", generate, hs, jobs=3, workers=1)
    return PropSpec("C22", [u],
                    assumptions=["the cluster reply is consistent: stream_versions holds, per stream, the version of the last event written", "dev-profile semantics (overflow checks on): the server's debug build"],
                    outside_claim=["everything else in C22: command histories over TCP against a model (EAPPEND, EGET, ESCAN, EPSCAN, ESVER, EPSEQ, subscriptions), has_more flags, error replies, Conn::run - not encodable; "
                                   "this check only decides the EMAPPEND response arithmetic"],
                    trusted_base=["kani-compiler 0.68 / CBMC 6.11 / cadical", "the statement-range slicer (fails closed on marker mismatch)", "mocks/shimmap"])
