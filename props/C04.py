"""C04 — multi-event transactions are all-or-nothing for readers (kernel: the commit-matching loop)."""
from engine.core import Harness, Unit, PropSpec, REPO
from engine import gen

SRC = REPO / "crates/sierradb/src/bucket/segment/reader.rs"
K, UNW = 5, 9


def generate(d):
    rewrites = []
    src = SRC.read_text()
    s, e = gen.find_item(src, r"impl\s+SegmentBlock\b")
    impl = src[s:e]
    s2, e2 = gen.find_item(impl, r"fn\s+read_committed_events\b")
    fn = impl[s2:e2]
    s3, e3 = gen.find_item(src, r"impl\s+SegmentBlockIter\b")
    impl_it = src[s3:e3]
    s4, e4 = gen.find_item(impl_it, r"fn\s+next_committed_events\b")
    it_fn = impl_it[s4:e4]
    inst = "\n".join(f"#[kani::proof]\n#[kani::unwind({UNW})]\nfn c04_commit_matching_len{n}() {{ check({n}); }}" for n in range(3, K + 1))
    h = gen.harness_text("c04/harness.rs").replace("@SLICE@", fn).replace("@ITER_SLICE@", it_fn).replace("@INSTANCES@", inst).replace("@K@", str(K)).replace("@UNW@", str(UNW))
    gen.write_crate(d, "c04-commit", '', "#![allow(unused, dead_code)]\n#![cfg(kani)]\n" + h)
    rewrites.append("slice: SegmentBlock::read_committed_events and SegmentBlockIter::next_committed_events (bucket/segment/reader.rs) verbatim into a mock SegmentBlock whose read_record serves a symbolic log; SmallVec -> array-backed stand-in (<= 4 events per transaction); "
                    "EventRecord/CommitRecord/Record/CommittedEvents reduced to the fields the function touches; Uuid -> (number, flag); every record one offset unit (COMMIT_SIZE = 1)")
    return {"rewrites": rewrites, "harness_file": str(d / "src/lib.rs")}


def native_replay(rp, workroot):
    from engine.core import replay_bin
    return replay_bin("c04", ["retry"], crate="replay-cluster")


def spec(tier, seed):
    enc = ("sierradb::bucket::segment::reader::SegmentBlock::read_committed_events",)
    hs = [Harness(f"c04_commit_matching_len{n}", obligation=f"every log of {n} records the writer (plus crashes) can leave - commits preceded by their event_count unflagged events, flagged single events, orphaned events of uncommitted attempts anywhere, "
                  "transaction ids possibly reused by a retry - and every start offset: a Single result is a flagged event at the start offset; a Transaction result contains only events of the commit's transaction that belong to "
                  "THAT commit (the event_count records before it), contiguous, never an orphan, never another transaction's event", encodes=enc, bounds=f"log length {n}, 3 transaction ids; unwind {UNW}", timeout_s=600,
                  tiers=("quick", "thorough") if n <= 4 else ("thorough",)) for n in range(3, K + 1)]
    hs.append(Harness("c04_vacuity_witness", expect_fail=True, obligation="twin", timeout_s=300))
    u = Unit("c04", generate, hs, jobs=4, workers=1)
    return PropSpec("C04", [u], native_replay=native_replay,
                    assumptions=["the log grammar of reachable on-disk states (harness well_formed): a crash can leave intact event records without their commit (seglog recovery keeps every intact record)",
                                 "record decoding (parse_record + bincode) is mocked: read_record serves decoded records"],
                    outside_claim=["iteration over committed events (SegmentBlockIter::next_committed_events; harness `iterate` kept in the file, not instantiated: the data-dependent resume offsets did not finish in 600 s)", "BucketSegmentReader::read_committed_events (the same loop written with polonius macros over file reads) - not encoded", "the stream filter in BucketIter, Database::read_transaction routing",
                                   "a concurrent reader racing the writer inside one record (C17/C18)"],
                    trusted_base=["kani-compiler 0.68 / CBMC 6.11 / cadical", "the slicer", "the log grammar in harness/c04/harness.rs"])
