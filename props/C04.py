"""C04 — multi-event transactions are all-or-nothing for readers (kernel: the commit-matching loop)."""
from engine.core import Harness, Unit, PropSpec, REPO
from engine import gen

SRC = REPO / "crates/sierradb/src/bucket/segment/reader.rs"
K, UNW = 5, 9


def generate(d):
    rewrites = []
    src = SRC.read_text()
    s, e = gen.find_item(src, r"impl\s+SegmentBlock\b")
    impl = src[s:e]
    s2, e2 = gen.find_item(impl, r"fn\s+read_committed_events\b")
    fn = impl[s2:e2]
    s3, e3 = gen.find_item(src, r"impl\s+SegmentBlockIter\b")
    impl_it = src[s3:e3]
    s4, e4 = gen.find_item(impl_it, r"fn\s+next_committed_events\b")
    it_fn = impl_it[s4:e4]
    s5, e5 = gen.find_item(src, r"impl\s+BucketSegmentReader\b")
    impl_b = src[s5:e5]
    s6, e6 = gen.find_item(impl_b, r"fn\s+read_committed_events\b")
    fn2 = desugar_polonius(impl_b[s6:e6], rewrites)
    inst = "\n".join(f"#[kani::proof]\n#[kani::unwind({UNW})]\nfn c04_commit_matching_len{n}() {{ check({n}); }}" for n in range(3, K + 1))
    inst += "\n" + "\n".join(f"#[kani::proof]\n#[kani::unwind({UNW})]\nfn c04_bucket_reader_len{n}() {{ check_bucket_reader({n}); }}" for n in range(3, K + 1))
    h = gen.harness_text("c04/harness.rs").replace("@SLICE@", fn).replace("@SLICE2@", fn2).replace("@ITER_SLICE@", it_fn).replace("@INSTANCES@", inst).replace("@K@", str(K)).replace("@UNW@", str(UNW))
    gen.write_crate(d, "c04-commit", '', "#![allow(unused, dead_code)]\n#![cfg(kani)]\n" + h)
    rewrites.append("slice: SegmentBlock::read_committed_events and SegmentBlockIter::next_committed_events (bucket/segment/reader.rs) verbatim into a mock SegmentBlock whose read_record serves a symbolic log; SmallVec -> array-backed stand-in (<= 4 events per transaction); "
                    "EventRecord/CommitRecord/Record/CommittedEvents reduced to the fields the function touches; Uuid -> (number, flag); every record one offset unit (COMMIT_SIZE = 1)")
    return {"rewrites": rewrites, "harness_file": str(d / "src/lib.rs")}


def desugar_polonius(fn, rewrites):
    """polonius_the_crab's macros are control-flow sugar around one closure-like block: `polonius!(|this| -> T { B })` evaluates B,
    `polonius_return!(v)` returns v from the enclosing fn, `polonius_try!(e)` is `e?`, `exit_polonius!(v)` is the block's value.
    The desugared text is what the harness compiles (the macro crate's unsafe lifetime extension is not part of the property)."""
    import re
    from engine.core import Inconclusive
    out, n = re.subn(r"polonius!\(\|this\|\s*->\s*Result<[^{]*?>\s*\{", "{", fn, count=1, flags=re.S)
    if n != 1:
        raise Inconclusive("C04: polonius!(|this| -> Result<..> { not found exactly once in BucketSegmentReader::read_committed_events")
    # the block closes with `});` at the end of the loop body
    idx = out.rfind("});")
    if idx < 0:
        raise Inconclusive("C04: closing `});` of polonius! not found")
    out = out[:idx] + "};" + out[idx + 3:]
    for pat, rep, what in ((r"polonius_try!\(", "try_q!(", "polonius_try"), (r"polonius_return!\(", "ret_q!(", "polonius_return"), (r"exit_polonius!\(", "exit_q!(", "exit_polonius")):
        out, k = re.subn(pat, rep, out)
        if k == 0 and what != "exit_polonius":
            raise Inconclusive(f"C04: {what}! not found in BucketSegmentReader::read_committed_events")
    if "polonius" in out:
        raise Inconclusive("C04: unhandled polonius macro left in the slice")
    rewrites.append("desugar: polonius!(|this| -> T { B }) -> { B }; polonius_try!(e) -> e?; polonius_return!(v) -> return v; exit_polonius!(v) -> v (BucketSegmentReader::read_committed_events)")
    return out


def native_replay(rp, workroot):
    from engine.core import replay_bin
    return replay_bin("c04", ["retry"], crate="replay-cluster")


def spec(tier, seed):
    enc = ("sierradb::bucket::segment::reader::SegmentBlock::read_committed_events", "sierradb::bucket::segment::reader::BucketSegmentReader::read_committed_events")
    hs = [Harness(f"c04_commit_matching_len{n}", obligation=f"every log of {n} records the writer (plus crashes) can leave - commits preceded by their event_count unflagged events, flagged single events, orphaned events of uncommitted attempts anywhere, "
                  "transaction ids possibly reused by a retry - and every start offset: a Single result is a flagged event at the start offset; a Transaction result contains only events of the commit's transaction that belong to "
                  "THAT commit (the event_count records before it), contiguous, never an orphan, never another transaction's event", encodes=enc, bounds=f"log length {n}, 3 transaction ids; unwind {UNW}", timeout_s=600,
                  tiers=("quick", "thorough") if n <= 4 else ("thorough",)) for n in range(3, K + 1)]
    hs += [Harness(f"c04_bucket_reader_len{n}", obligation=f"the same obligations for BucketSegmentReader::read_committed_events (the copy of the loop that index hydration and sequential scans use), logs of {n} records; "
                   "in addition, for both copies: a `(None, Some(next))` answer never steps over the first record of a committed transaction", encodes=enc, bounds=f"log length {n}, 3 transaction ids; unwind {UNW}", timeout_s=600,
                   tiers=("quick", "thorough") if n <= 4 else ("thorough",)) for n in range(3, K + 1)]
    hs.append(Harness("c04_vacuity_witness", expect_fail=True, obligation="twin", timeout_s=300))
    u = Unit("c04", generate, hs, jobs=4, workers=1)
    return PropSpec("C04", [u], native_replay=native_replay,
                    assumptions=["the log grammar of reachable on-disk states (harness well_formed): a crash can leave intact event records without their commit (seglog recovery keeps every intact record)",
                                 "record decoding (parse_record + bincode) is mocked: read_record serves decoded records"],
                    outside_claim=["iteration over committed events (SegmentBlockIter::next_committed_events; harness `iterate` kept in the file, not instantiated: the data-dependent resume offsets did not finish in 600 s)", "the stream filter in BucketIter, Database::read_transaction routing",
                                   "a concurrent reader racing the writer inside one record (C17/C18)"],
                    trusted_base=["kani-compiler 0.68 / CBMC 6.11 / cadical", "the slicer", "the log grammar in harness/c04/harness.rs"])
