"""C18 — segment-log readers never serve stale or unflushed data."""
from engine.core import Harness, Unit, PropSpec
from engine import units

DISK, MAXD, UNW, HAVOC = 64, 12, 66, 12

# (H, n1, n2, start): record data lengths are shape parameters; contents are symbolic
SHAPES_QUICK = [(1, 2, 3, 0, "true"), (1, 12, 2, 0, "false")]
# first record straddles the (scaled) 32-byte read-ahead window boundary and is the last flushed one when the reader caches it:
# the fill is "oversized" and rounded up to a page; the next record then starts inside that rounded-up tail
SHAPE_OVERSIZED = (1, 4, 3, 20, "true")
SHAPES_MORE = [(0, 0, 1, 0, "false"), (1, 3, 5, 20, "false"), (1, 0, 0, 0, "true"), (0, 3, 12, 0, "true"), (1, 7, 7, 5, "false"), (1, 12, 9, 3, "true"), (0, 2, 2, 22, "true"), (1, 1, 9, 14, "false"),
               (1, 2, 3, 0, "false"), (1, 12, 2, 0, "true")]
SCEN = {
    "reuse": ("reuse_after_flush::<{H}>({n1}, {n2}, {s}, {b}, true)", "a reader whose read-ahead cache was filled before record 2 was flushed (tail beyond the flushed offset arbitrary at that time) returns exactly the on-disk record 2 / record 1 / OutOfBounds afterwards, any hint"),
    "reusez": ("reuse_after_flush::<{H}>({n1}, {n2}, {s}, {b}, false)", "same as reuse, but the bytes beyond the flushed offset are still the preallocated zeros when the reader fills its cache"),
    "unflushed": ("unflushed_not_served::<{H}>({n1}, {n2}, {s}, {b})", "appended-but-unsynced bytes (buffered or flushed to the OS) are never returned; reads at/after the flushed offset fail; any offset, any hint"),
    "truncate": ("truncate_then_read::<{H}>({n1}, {n2}, {s}, {b})", "after set_len(o2) reads at o2 through a reader that cached the old record are refused, o1 still reads back"),
    "trunc_rewrite": ("truncate_rewrite::<{H}>({n1}, {n2}, {s}, {b})", "after set_len(o2) + append + sync, a read at o2 through a reader that cached the old record returns the NEW record"),
    "replace": ("replace_header_then_read({n1}, {n2}, {s}, {b}, {b})", "after replace_header through the same reader, sequential/random reads return the new header and the bytes on disk"),
    "iterlight": ("iterate_light::<{H}>({n1}, {n2}, {s}, {b})", "iteration from a record boundary yields exactly the one flushed record, then None (second record unsynced)"),
    "iterate": ("iterate_flushed::<{H}>({n1}, {n2}, {s}, {b})", "iteration from a record boundary yields exactly the flushed records, then None (third record unsynced)"),
}


def instances(shapes):
    out = []
    for (H, n1, n2, s, b) in shapes:
        for sc, (call, obl) in SCEN.items():
            if sc == "replace" and H != 1:
                continue
            name = f"c18_{sc}_h{H}_{n1}_{n2}_s{s}_{b[0]}"
            out.append((name, call.format(H=H, n1=n1, n2=n2, s=s, b=b), f"{obl} [H={H}, data lengths {n1},{n2}, start offset {s}, hint/variant flag {b}]"))
    return out


def native_replay(rp, workroot):
    import re
    from engine.core import replay_bin
    m = re.match(r"c18_(reusez|reuse|truncate|trunc_rewrite|replace|iterate|iterlight)_h(\d)_(\d+)_(\d+)_s(\d+)_([tf])", rp["harness"])
    if not m:
        return None, "no native reproducer for this scenario (solver counterexample only)"
    sc, H, a, b, s, q = m.groups()
    sc = {"trunc_rewrite": "truncate_rewrite", "reusez": "reuse_oversized", "iterlight": "iterate"}.get(sc, sc)
    return replay_bin("c18", [sc, a, b, s, 1 if q == "t" else 0])


def generate(d):
    lines = "\n".join(f"    fs_harness!({'konst' if '_iter' in n else 'cheap'}, {n}, {UNW}, {{ {c} }});" for n, c, _ in instances(SHAPES_QUICK + SHAPES_MORE + [SHAPE_OVERSIZED]))
    # PAGE_SIZE is scaled to 16 here (not 8 as for C17): the rounded-up tail of an oversized read-ahead fill must be able to
    # hold a whole record head (8 bytes) + small record, as it can with the real 4 KiB page (seed C18-2 hides otherwise)
    info = units.seglog_overlay(d, ["seglog/fmodel.rs", "seglog/c18.rs"], scale={"PAGE_SIZE": 16}, consts={"DISK_BYTES": DISK, "MAXD": MAXD, "HAVOC": HAVOC, "INSTANCES": lines})
    # observation hook (in the overlay only): the iterator's private position, so that a wrong advance is reported at the step
    # that makes it instead of through a second read at a garbage offset (which does not fit in memory)
    rd = d / "seglog" / "src" / "read.rs"
    rd.write_text(rd.read_text() + "\n#[cfg(kani)]\nimpl<const H: usize> Iter<'_, H> {\n    pub(crate) fn verif_offset(&self) -> u64 { self.offset }\n}\n")
    info["rewrites"].append("append: #[cfg(kani)] Iter::verif_offset() accessor for the private field `offset` (read-only observation)")
    return info


ENC = ("seglog::read::Reader::read_record", "seglog::read::Reader::read_record_sequential", "seglog::read::ReadAheadBuf::{read,fill,overlaps,invalidate}",
       "seglog::read::Reader::replace_header_with", "seglog::read::Iter::next_record",
       "seglog::write::Writer::{append,sync,flush_writer,set_len,prepare_data}", "std::io::BufWriter<File>")
B = (f"segment {DISK} bytes; record data lengths concrete per instance (<= {MAXD}), contents/headers/unflushed tail/hints/offsets symbolic; "
     f"READ_AHEAD_SIZE 32, PAGE_SIZE 16, OPTIMISTIC_DATA_SIZE 4, WRITE_BUF_SIZE 16 (scaled so that buffered, write-through, optimistic, fallback and large paths are all hit); unwind {UNW}")


def spec(tier, seed):
    hs = []
    quick = instances(SHAPES_QUICK)
    more = instances(SHAPES_MORE)
    # the shape whose second record head ends exactly at the (scaled) read-ahead window boundary matters for cache
    # maintenance in replace_header: keep that one scenario in the quick tier
    straddle = [x for x in more if x[0] == "c18_replace_h1_12_9_s3_t"]
    more = [x for x in more if x[0] != "c18_replace_h1_12_9_s3_t"]
    quick = quick + straddle
    over = [x for x in instances([SHAPE_OVERSIZED]) if x[0].startswith("c18_reusez_")]
    quick = quick + over
    for name, _, obl in quick:
        hs.append(Harness(name, obligation=obl, encodes=ENC, bounds=B, timeout_s=600))
    for i, (name, _, obl) in enumerate(more):
        hs.append(Harness(name, obligation=obl, encodes=ENC, bounds=B, timeout_s=1800, tiers=("thorough",)))
    hs.append(Harness("c18_vacuity_witness", expect_fail=True, obligation="twin: file model write/read_at reachable", timeout_s=120))
    u = Unit("seglog_c18", generate, hs, kani_flags=("-Z", "stubbing"), jobs=2 if tier == "thorough" else 3, workers=4 if tier == "thorough" else 5, crate_subdir="seglog", harness_prefix="verif::c18::", playback=False)
    return PropSpec("C18", [u], native_replay=native_replay,
                    assumptions=["file model: POSIX regular file, no short writes / IO errors", "CRC replaced by a cheap GF(2)-linear fold (CRC is C17's subject); in the two iteration scenarios by a constant, so that every record checks and the iterator's control flow stays concrete (a symbolic checksum verdict makes Iter.offset symbolic and the second read undecidable in memory)",
                                 "ReadError::Io / WriteError::Io carry a unit payload instead of io::Error",
                                 "one reader interleaved with the single writer at operation granularity; bytes beyond the flushed offset are arbitrary when the reader fills its cache (stands for a writer in mid-write)"],
                    outside_claim=["real buffer sizes (64 KiB read-ahead)", "record lengths other than the listed shapes", "a second reader object observing replace_header of another reader", "memory orders weaker than SC"],
                    trusted_base=["kani-compiler 0.68 / CBMC 6.11 / cadical", "the file model (harness/seglog/fmodel.rs)", "spec_read reference reader"])
