"""C23 — identifiers embed and preserve their partition routing (whole input space)."""
from engine.core import Harness, Unit, PropSpec, REPO
from engine import gen

ID = REPO / "crates/sierradb/src/id.rs"
BUCKET = REPO / "crates/sierradb/src/bucket.rs"


def generate(d):
    rewrites = []
    src = gen.strip_test_mods(ID.read_text())
    types = gen.slice_items(BUCKET, [r"type\s+BucketId\b", r"type\s+PartitionHash\b", r"type\s+PartitionId\b"])
    lib = ("#![allow(unused, dead_code)]\n#![cfg(kani)]\nmod bucket {\n// ---- verbatim type aliases from crates/sierradb/src/bucket.rs\n" + types + "}\n"
           "// ---- verbatim: crates/sierradb/src/id.rs (tests stripped)\n" + src + "\n// ---- harness\n" + gen.harness_text("c23/harness.rs"))
    gen.write_crate(d, "c23-ids", 'uuid = "1.22"\nrand = { path = "%s" }' % gen.mock("rand"), lib)
    rewrites.append("include: sierradb/src/id.rs verbatim + BucketId/PartitionHash/PartitionId aliases; real `uuid` crate; `rand` -> mock whose draws are kani::any(); "
                    "stub: SystemTime::now -> arbitrary instant after the epoch")
    return {"rewrites": rewrites, "harness_file": None}


def spec(tier, seed):
    enc = ("sierradb::id::uuid_v7_with_partition_hash", "sierradb::id::uuid_to_partition_hash", "sierradb::id::validate_event_id",
           "sierradb::id::set_uuid_flag", "sierradb::id::get_uuid_flag", "sierradb::id::extract_event_id_bucket", "sierradb::id::partition_id_to_bucket")
    hs = [
        Harness("c23_embed_extract_validate", obligation="for all hashes h, all clock values and all random bits: extract(generate(h)) == h, the id validates for h and for no other hash, version/variant bits fixed",
                encodes=enc, bounds="none: all 2^16 hashes x all time/random bits (loops only over the 16 uuid bytes, unwind 18)", timeout_s=600),
        Harness("c23_flag_changes_one_bit_only", obligation="for all 128-bit uuids and both flag values: get(set(u,f)) == f, only bit 63 may change, embedded hash unchanged, idempotent, restoring the flag restores the id",
                encodes=enc, bounds="none: all 2^128 uuids", timeout_s=600),
        Harness("c23_same_key_same_hash", obligation="for all partition keys (2^128) and all time/random bits: the event id generated for the key's hash, flagged or not, carries exactly that hash and validates for the key "
                "(partition = hash % P and bucket = partition % B are functions of the hash, so routing agrees for every P and B)",
                encodes=enc, bounds="none: all keys x all time/random bits", timeout_s=600),
        Harness("c23_bucket_helpers", obligation="for all ids, all partition ids and bucket counts in [1,256]: partition_id_to_bucket == pid % B < B, extract_event_id_bucket == hash % B < B",
                encodes=enc, bounds="bucket count <= 256 (two independent 16-bit remainder circuits must be proved equal; the full 16-bit divisor range did not finish in 600 s)", timeout_s=900),
        Harness("c23_vacuity_witness", expect_fail=True, obligation="twin", timeout_s=300),
    ]
    u = Unit("c23", generate, hs, kani_flags=("-Z", "stubbing"), jobs=4, workers=1, playback=False)
    return PropSpec("C23", [u],
                    assumptions=["the clock returns an instant at or after the Unix epoch (the code panics on 'Time went backwards' otherwise)", "rand draws are arbitrary values"],
                    outside_claim=["Transaction::new's loop over events (it calls validate_event_id per event; the per-event predicate is what is decided)", "uniqueness / monotonicity of generated ids"],
                    trusted_base=["kani-compiler 0.68 / CBMC 6.11 / cadical", "uuid crate compiled as is"])
