"""C02 — appends are accepted exactly when their version conditions hold (kernel: WriterSet::validate_event_versions)."""
from engine.core import Harness, Unit, PropSpec, REPO
from engine import gen

WTP = REPO / "crates/sierradb/src/writer_thread_pool.rs"
NE, NP, UNW = 3, 2, 10


def generate(d):
    rewrites = []
    fn = gen.slice_item(WTP, r"fn\s+validate_event_versions\b")
    h = gen.harness_text("c02/harness.rs").replace("@SLICE@", fn).replace("@NE@", str(NE)).replace("@UNW@", str(UNW))
    gen.write_crate(d, "c02-versions", 'shimmap = { path = "%s" }\nsierradb-protocol = { path = "%s" }' % (gen.mock("shimmap"), REPO / "crates/sierradb-protocol"),
                    "#![allow(unused, dead_code)]\n#![cfg(kani)]\n" + h)
    rewrites.append("slice: WriterSet::validate_event_versions (writer_thread_pool.rs) verbatim into a mock WriterSet {pending_indexes, symbolic stream index}; real sierradb-protocol ExpectedVersion/CurrentVersion (path dep); "
                    "std HashMap + hash_map::Entry -> direct-indexed shim; StreamId -> small Copy id; Uuid -> u128; mock WriteError / EventValidationError with the variants the function constructs")
    return {"rewrites": rewrites, "harness_file": None}


def spec(tier, seed):
    hs = [
        Harness(f"c02_validate_p{k}", obligation=f"for every store state of 2 streams (absent / present with any version and matching or foreign partition key), {k} pending index entries overriding it, and every transaction of {NE} events "
                "(any stream, Any/Exists/Empty/Exact(v) with v over full u64): accepted <=> every expectation holds against the state including earlier events of the same transaction and the partition key matches; "
                "on acceptance the per-event current versions are the model's", encodes=("sierradb::writer_thread_pool::WriterSet::validate_event_versions", "sierradb_protocol::{ExpectedVersion, CurrentVersion}"),
                bounds=f"{NE} events, 2 streams, {k} pending entries; versions full u64 (< u64::MAX - {NE}); unwind {UNW}", timeout_s=900)
        for k in (0, 1, 2)
    ] + [
        Harness("c02_vacuity_witness", expect_fail=True, obligation="twin", timeout_s=300),
    ]
    u = Unit("c02", generate, hs, jobs=4, workers=1)
    return PropSpec("C02", [u],
                    assumptions=["the stream index lookups (open index, closed MPHF/bloom indexes) are abstracted to a symbolic answer per stream; 'latest pending entry wins over the index' is taken as the truth about a stream",
                                 "a stream holding 2^64 - 4 or more events is outside the domain (version + 1 overflow)"],
                    outside_claim=["expected partition sequence (validate_partition_sequence is decided under C25)", "'a rejected append changes nothing observable' and 'latest-version queries return the assigned versions' "
                                   "(handle_write / indexes / reopen / rollover): not encoded", "drift between pending, open-index and closed-index lookups"],
                    trusted_base=["kani-compiler 0.68 / CBMC 6.11 / cadical", "the slicer", "mocks/shimmap (direct map)", "the 25-line reference model in harness/c02/harness.rs"])
