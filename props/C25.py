"""C25 — expected-version algebra matches the store and round-trips."""
from engine.core import Harness, Unit, PropSpec, REPO
from engine import gen

WTP = REPO / "crates/sierradb/src/writer_thread_pool.rs"


def generate(d):
    rewrites = []
    vps = gen.slice_item(WTP, r"fn\s+validate_partition_sequence\b")
    lib = """#![allow(unused, dead_code)]
#![cfg(kani)]
// mock context for the verbatim slice: only the error variant it constructs
type PartitionId = u16;
#[derive(Debug)]
pub enum WriteError {
    WrongExpectedSequence { partition_id: PartitionId, current: CurrentVersion, expected: ExpectedVersion },
}

// ---- verbatim from crates/sierradb/src/writer_thread_pool.rs
""" + vps + "\n\n" + gen.harness_text("c25/harness.rs")
    gen.write_crate(d, "c25-protocol", 'sierradb-protocol = { path = "%s" }' % (REPO / "crates/sierradb-protocol"), lib)
    rewrites.append("slice: fn validate_partition_sequence (writer_thread_pool.rs) verbatim into a context with a 1-variant mock WriteError")
    return {"rewrites": rewrites, "harness_file": str(d / "src/lib.rs")}


PROTO = "sierradb_protocol::"
ENC_ALG = ("ExpectedVersion::gap_from", "ExpectedVersion::is_satisfied_by")


def spec(tier, seed):
    hs = [
        Harness("c25_gap_from_total_and_distance", obligation="for all expected x current over full u64: gap_from does not panic and equals the signed distance (saturating)",
                encodes=("sierradb_protocol::ExpectedVersion::gap_from",), bounds="none (loop-free; whole input space)", timeout_s=120),
        Harness("c25_satisfied_iff_store_accepts", obligation="is_satisfied_by(e,cur) <=> validate_partition_sequence(_, e, cur.next()).is_ok() for all e, cur != Current(u64::MAX)",
                encodes=("sierradb_protocol::ExpectedVersion::is_satisfied_by", "sierradb::writer_thread_pool::validate_partition_sequence", "sierradb_protocol::CurrentVersion::next"),
                bounds="none (whole input space)", timeout_s=120),
        Harness("c25_store_rejection_reports_current", obligation="a rejection carries the real current version and the expectation",
                encodes=("sierradb::writer_thread_pool::validate_partition_sequence",), bounds="none", timeout_s=120),
        Harness("c25_next_version_inverse", obligation="from_next_version/into_next_version mutually inverse on their domains incl. u64::MAX",
                encodes=("sierradb_protocol::ExpectedVersion::from_next_version", "sierradb_protocol::ExpectedVersion::into_next_version"), bounds="none", timeout_s=120),
        Harness("c25_current_version_arith", obligation="CurrentVersion next/+=/as_expected_version agree with the position model",
                encodes=("sierradb_protocol::CurrentVersion::next", "sierradb_protocol::CurrentVersion::add_assign", "sierradb_protocol::CurrentVersion::as_expected_version"),
                bounds="results representable in u64", timeout_s=120),
        Harness("c25_display_parse_keywords", obligation="any/exists/empty round trip through Display/FromStr",
                encodes=("sierradb_protocol::ExpectedVersion::fmt", "sierradb_protocol::ExpectedVersion::from_str", "sierradb_protocol::CurrentVersion::from_str"), bounds="unwind 24", timeout_s=300),
        Harness("c25_display_parse_low", obligation="parse(display(v)) == v for v in [0,255]", bounds="v in [0,255] symbolic; unwind 24",
                encodes=("sierradb_protocol::ExpectedVersion::fmt", "sierradb_protocol::ExpectedVersion::from_str"), timeout_s=600),
        Harness("c25_display_parse_high", obligation="parse(display(v)) == v for v in [u64::MAX-255, u64::MAX]", bounds="256 values below u64::MAX symbolic; unwind 24",
                encodes=("sierradb_protocol::ExpectedVersion::fmt", "sierradb_protocol::ExpectedVersion::from_str"), timeout_s=600),
        Harness("c25_display_parse_mid", obligation="parse(display(v)) == v around 2^32 and 2^63", bounds="2x256 values symbolic; unwind 24", tiers=("thorough",),
                encodes=("sierradb_protocol::ExpectedVersion::fmt", "sierradb_protocol::ExpectedVersion::from_str"), timeout_s=900),
        Harness("c25_vacuity_witness", expect_fail=True, obligation="twin: assert(false) after the same assumptions must be reachable", timeout_s=120),
    ]
    u = Unit("c25", generate, hs, jobs=4, workers=2)
    return PropSpec(
        "C25", [u],
        assumptions=[
            "CurrentVersion::Current(u64::MAX) (a stream holding 2^64 events) is outside the domain of next()",
            "Display/FromStr round trip is decided on symbolic windows of 256 values at 0, 2^32, 2^63 and u64::MAX, not the whole u64 range (64-bit div/mod by 10 x 20 digits)",
            "validate_partition_sequence is the store-side acceptance test compared against (stream-version acceptance is decided under C02)",
        ],
        outside_claim=["Display/parse of values away from the listed windows", "serde encodings"],
        trusted_base=["kani-compiler 0.68 / CBMC 6.11 / cadical", "the slicer (verbatim text, fails closed)"],
    )
