"""Shared generator for the topology/config/routing slices (C13, C14, C16)."""
from engine.core import REPO
from engine import gen

CFG = REPO / "crates/sierradb-server/src/config.rs"
MGR = REPO / "crates/sierradb-topology/src/manager.rs"
WTP = REPO / "crates/sierradb/src/writer_thread_pool.rs"
SLIB = REPO / "crates/sierradb/src/lib.rs"
PARAMS = {"NMAX": 4, "BMAX": 6, "PMAX": 8, "RMAX": 4, "LMAX": 6, "UNW": 10}
PAIRS = [(n, b) for n in range(1, 5) for b in range(1, 7)]
QUICK_PAIRS = [(1, 1), (2, 2), (2, 4), (3, 4), (3, 6), (4, 6)]


def generate(d):
    rewrites = []
    cfg_fns = gen.slice_items(CFG, [r"fn\s+assigned_buckets\b", r"fn\s+assigned_partitions\b", r"fn\s+node_count\b"])
    mgr_fns = gen.slice_items(MGR, [r"fn\s+calculate_assigned_partitions\b", r"fn\s+calculate_partition_replicas\b"])
    mgr_fns = gen.rewrite_once(mgr_fns, "known_nodes: &HashMap<usize, T>, // node_index -> cluster_ref", "known_nodes: &HashMap<usize, u32>, // node_index -> cluster_ref (T = u32 in this instantiation)",
                               "instantiate: generic cluster key T := u32", rewrites)
    mgr_fns = gen.rewrite_once(mgr_fns, ") -> ArrayVec<T, MAX_REPLICATION_FACTOR> {", ") -> ArrayVec<u32, MAX_REPLICATION_FACTOR> {", "instantiate: return type T := u32", rewrites)
    thr = gen.slice_item(WTP, r"fn\s+bucket_id_to_thread_id\b")
    maxrf = gen.slice_item(SLIB, r"const\s+MAX_REPLICATION_FACTOR\b")
    h = gen.harness_text("topo/harness.rs")
    inst = "\n".join(f"#[kani::proof]\n#[kani::unwind({PARAMS['UNW']})]\nfn c13_placement_n{n}_b{b}() {{ c13_placement({n}, {b}); }}\n"
                     f"#[kani::proof]\n#[kani::unwind({PARAMS['UNW']})]\nfn c14_replica_sets_n{n}_b{b}() {{ c14_replica_sets({n}, {b}); }}" for n, b in PAIRS)
    h = h.replace("@INSTANCES@", inst)
    for k, v in PARAMS.items():
        h = h.replace(f"@{k}@", str(v))
    lib = """#![allow(unused, dead_code)]
#![cfg(kani)]
use arrayvec::ArrayVec;
use shimmap::HashMap;
use shimmap::bitset::HashSet;
type BucketId = u16;
type PartitionId = u16;
// ---- mock context: the fields of AppConfig that the sliced methods read (same names and types)
pub struct BucketConfig { pub count: u16, pub ids: Option<Vec<BucketId>> }
pub struct NodeConfig { pub count: Option<u32>, pub index: u32 }
pub struct PartitionConfig { pub count: u16, pub ids: Option<Vec<PartitionId>> }
pub struct ReplicationConfig { pub factor: u8 }
pub struct AppConfig { pub bucket: BucketConfig, pub node: NodeConfig, pub partition: PartitionConfig, pub replication: ReplicationConfig, pub nodes: Option<Vec<u8>> }
#[derive(Debug)]
pub enum ConfigError { Message(String) }
// ---- verbatim from crates/sierradb/src/lib.rs
""" + maxrf + """
impl AppConfig {
// ---- verbatim from crates/sierradb-server/src/config.rs
""" + cfg_fns + """}
pub struct Topo;
impl Topo {
// ---- verbatim from crates/sierradb-topology/src/manager.rs (generic key instantiated with u32)
""" + mgr_fns + """}
// ---- verbatim from crates/sierradb/src/writer_thread_pool.rs
""" + thr + "\n// ---- harness\n" + h
    gen.write_crate(d, "topo-slices", 'arrayvec = "0.7"\nshimmap = { path = "%s" }' % gen.mock("shimmap"), lib)
    rewrites.append("slice: AppConfig::{assigned_buckets,assigned_partitions,node_count} (config.rs), TopologyManager::{calculate_assigned_partitions,calculate_partition_replicas} (manager.rs, T := u32), "
                    "bucket_id_to_thread_id (writer_thread_pool.rs), MAX_REPLICATION_FACTOR verbatim; mock AppConfig with only the fields read; HashMap -> array-backed shim, HashSet<u16> -> 64-bit bit set (ids < 64); real arrayvec")
    return {"rewrites": rewrites, "harness_file": None}
