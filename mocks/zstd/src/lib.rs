//! Verification mock of `zstd` (FFI, not encodable). Contract assumed:
//!  * `bulk::compress(data)` returns `Ok` with an ARBITRARY non-empty byte string whose
//!    length is at most `data.len() + SLACK` (the real bound is ZSTD_compressBound(n) =
//!    n + n/256 + up to 64; SLACK is a scaled-down stand-in and is part of the stated bound),
//!    and remembers `data` as the original of the last compression;
//!  * `stream::copy_decode(src, dst)` writes the remembered original of the most recent
//!    `compress` call (harnesses use at most one compressed record at a time).
//! zstd's own integrity is outside every claim.
use std::io::{self, Read, Write};

pub const SLACK: usize = 2;
pub const MAX_ORIG: usize = 16;
pub static mut LAST_ORIG: [u8; MAX_ORIG] = [0; MAX_ORIG];
pub static mut LAST_ORIG_LEN: usize = 0;
pub static mut COMPRESS_CALLS: usize = 0;

pub mod bulk {
    use super::*;
    #[allow(static_mut_refs)]
    pub fn compress(data: &[u8], _level: i32) -> io::Result<Vec<u8>> {
        #[cfg(kani)]
        {
            kani::assume(data.len() <= MAX_ORIG);
            unsafe {
                LAST_ORIG_LEN = data.len();
                let mut i = 0;
                while i < data.len() {
                    LAST_ORIG[i] = data[i];
                    i += 1;
                }
                COMPRESS_CALLS += 1;
            }
            let n: usize = kani::any();
            kani::assume(n >= 1 && n <= data.len() + SLACK);
            let mut v = Vec::with_capacity(MAX_ORIG + SLACK);
            let mut i = 0;
            while i < n {
                v.push(kani::any::<u8>());
                i += 1;
            }
            return Ok(v);
        }
        #[cfg(not(kani))]
        {
            Ok(data.to_vec())
        }
    }
}

pub mod stream {
    use super::*;
    #[allow(static_mut_refs)]
    pub fn copy_decode<R: Read, W: Write>(_source: R, mut destination: W) -> io::Result<()> {
        unsafe { destination.write_all(&LAST_ORIG[..LAST_ORIG_LEN]) }
    }
}
