//! Verification mock of `tracing`: every logging macro expands to nothing
//! ("formatting and logging get empty bodies"). The real macros reach a
//! thread-local destructor and through it `catch_unwind`, which kani-compiler
//! 0.68 cannot translate. Arguments are not evaluated (the real macros only
//! evaluate them when a subscriber is interested, so no repo code may rely on it).
#[macro_export] macro_rules! trace { ($($t:tt)*) => {{}}; }
#[macro_export] macro_rules! debug { ($($t:tt)*) => {{}}; }
#[macro_export] macro_rules! info  { ($($t:tt)*) => {{}}; }
#[macro_export] macro_rules! warn  { ($($t:tt)*) => {{}}; }
#[macro_export] macro_rules! error { ($($t:tt)*) => {{}}; }
