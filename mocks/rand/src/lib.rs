//! Verification mock of `rand` (subset used by sierradb::id): every draw is an ARBITRARY value
//! of its type (kani::any), i.e. all random bits at once instead of sampled ones.
pub struct MockRng;
pub fn rng() -> MockRng {
    MockRng
}
pub trait MockRandom {
    fn arbitrary() -> Self;
}
macro_rules! imp { ($($t:ty),*) => {$(
    impl MockRandom for $t {
        fn arbitrary() -> Self {
            #[cfg(kani)]
            { kani::any() }
            #[cfg(not(kani))]
            { 0 as $t }
        }
    }
)*}; }
imp!(u8, u16, u32, u64, u128, usize);
pub trait Rng {
    fn random<T: MockRandom>(&mut self) -> T {
        T::arbitrary()
    }
}
impl Rng for MockRng {}
pub mod prelude {
    pub use super::{rng, Rng};
}
