//! Array-backed stand-ins for std::collections::{BTreeMap, HashMap, HashSet} with the API subset the
//! sliced repo code uses. std's BTreeMap/HashMap with symbolic keys are intractable for CBMC (probed:
//! 62 GB in 3 min for two inserts); a fixed-capacity array map with symbolic keys costs < 1 s.
//! Capacity CAP is a stated bound: exceeding it is an `assume(false)` under Kani (the path is outside
//! the claim), a panic natively. Ordered iteration (BTreeMap) is by key; HashMap iteration order is
//! unspecified in std, here it is insertion order.
#![allow(clippy::all)]

pub const CAP: usize = 8;

fn overflow() -> ! {
    #[cfg(kani)]
    {
        kani::assume(false);
    }
    panic!("shimmap capacity exceeded (bound of the verification harness)")
}

#[derive(Clone, Debug)]
pub struct BTreeMap<K, V> {
    slots: [Option<(K, V)>; CAP],
}

pub enum Entry<'a, K, V> {
    Occupied(OccupiedEntry<'a, K, V>),
    Vacant(VacantEntry<'a, K, V>),
}

/// `use std::collections::btree_map::Entry` / `hash_map::Entry`
pub mod btree_map {
    pub use super::{Entry, OccupiedEntry, VacantEntry};
}
pub mod hash_map {
    pub use super::{Entry, OccupiedEntry, VacantEntry};
}

pub struct OccupiedEntry<'a, K, V> {
    map: &'a mut BTreeMap<K, V>,
    idx: usize,
}
pub struct VacantEntry<'a, K, V> {
    map: &'a mut BTreeMap<K, V>,
    key: K,
}

impl<K, V> Default for BTreeMap<K, V> {
    fn default() -> Self {
        Self::new()
    }
}

impl<K, V> BTreeMap<K, V> {
    pub fn new() -> Self {
        BTreeMap { slots: [const { None }; CAP] }
    }
    pub fn len(&self) -> usize {
        let mut n = 0;
        let mut i = 0;
        while i < CAP {
            if self.slots[i].is_some() {
                n += 1;
            }
            i += 1;
        }
        n
    }
    pub fn is_empty(&self) -> bool {
        self.len() == 0
    }
}

impl<K: Ord, V> BTreeMap<K, V> {
    fn find(&self, k: &K) -> Option<usize> {
        let mut i = 0;
        while i < CAP {
            if let Some((kk, _)) = &self.slots[i] {
                if kk == k {
                    return Some(i);
                }
            }
            i += 1;
        }
        None
    }
    fn free(&self) -> usize {
        let mut i = 0;
        while i < CAP {
            if self.slots[i].is_none() {
                return i;
            }
            i += 1;
        }
        overflow()
    }
    pub fn get(&self, k: &K) -> Option<&V> {
        match self.find(k) {
            Some(i) => self.slots[i].as_ref().map(|(_, v)| v),
            None => None,
        }
    }
    pub fn get_mut(&mut self, k: &K) -> Option<&mut V> {
        match self.find(k) {
            Some(i) => self.slots[i].as_mut().map(|(_, v)| v),
            None => None,
        }
    }
    pub fn contains_key(&self, k: &K) -> bool {
        self.find(k).is_some()
    }
    pub fn insert(&mut self, k: K, v: V) -> Option<V> {
        match self.find(&k) {
            Some(i) => self.slots[i].replace((k, v)).map(|(_, old)| old),
            None => {
                let i = self.free();
                self.slots[i] = Some((k, v));
                None
            }
        }
    }
    pub fn remove(&mut self, k: &K) -> Option<V> {
        match self.find(k) {
            Some(i) => self.slots[i].take().map(|(_, v)| v),
            None => None,
        }
    }
    pub fn entry(&mut self, key: K) -> Entry<'_, K, V> {
        match self.find(&key) {
            Some(idx) => Entry::Occupied(OccupiedEntry { map: self, idx }),
            None => Entry::Vacant(VacantEntry { map: self, key }),
        }
    }
    pub fn first_entry(&mut self) -> Option<OccupiedEntry<'_, K, V>> {
        match self.next_idx(None) {
            Some(idx) => Some(OccupiedEntry { map: self, idx }),
            None => None,
        }
    }
    pub fn last_entry(&mut self) -> Option<OccupiedEntry<'_, K, V>> {
        match self.prev_idx(None) {
            Some(idx) => Some(OccupiedEntry { map: self, idx }),
            None => None,
        }
    }
    pub fn retain<F: FnMut(&K, &mut V) -> bool>(&mut self, mut f: F) {
        let mut i = 0;
        while i < CAP {
            let keep = match &mut self.slots[i] {
                Some((k, v)) => f(k, v),
                None => true,
            };
            if !keep {
                self.slots[i] = None;
            }
            i += 1;
        }
    }
    /// index of the smallest key strictly greater than `after` (None = smallest overall)
    fn next_idx(&self, after: Option<&K>) -> Option<usize> {
        let mut best: Option<usize> = None;
        let mut i = 0;
        while i < CAP {
            if let Some((k, _)) = &self.slots[i] {
                let ok = match after {
                    Some(a) => k > a,
                    None => true,
                };
                if ok {
                    best = match best {
                        Some(b) => {
                            if k < &self.slots[b].as_ref().unwrap().0 { Some(i) } else { Some(b) }
                        }
                        None => Some(i),
                    };
                }
            }
            i += 1;
        }
        best
    }
    fn prev_idx(&self, before: Option<&K>) -> Option<usize> {
        let mut best: Option<usize> = None;
        let mut i = 0;
        while i < CAP {
            if let Some((k, _)) = &self.slots[i] {
                let ok = match before {
                    Some(a) => k < a,
                    None => true,
                };
                if ok {
                    best = match best {
                        Some(b) => {
                            if k > &self.slots[b].as_ref().unwrap().0 { Some(i) } else { Some(b) }
                        }
                        None => Some(i),
                    };
                }
            }
            i += 1;
        }
        best
    }
    pub fn first_key_value(&self) -> Option<(&K, &V)> {
        self.next_idx(None).map(|i| {
            let (k, v) = self.slots[i].as_ref().unwrap();
            (k, v)
        })
    }
    pub fn last_key_value(&self) -> Option<(&K, &V)> {
        self.prev_idx(None).map(|i| {
            let (k, v) = self.slots[i].as_ref().unwrap();
            (k, v)
        })
    }
    pub fn pop_first(&mut self) -> Option<(K, V)> {
        match self.next_idx(None) {
            Some(i) => self.slots[i].take(),
            None => None,
        }
    }
    pub fn pop_last(&mut self) -> Option<(K, V)> {
        match self.prev_idx(None) {
            Some(i) => self.slots[i].take(),
            None => None,
        }
    }
    pub fn iter(&self) -> Iter<'_, K, V> {
        Iter { map: self, last: None, done: false, lo: None, hi: None }
    }
    /// entries with keys inside `r`, in key order
    pub fn range<R: std::ops::RangeBounds<K>>(&self, r: R) -> Iter<'_, K, V>
    where
        K: Clone,
    {
        use std::ops::Bound::*;
        let lo = match r.start_bound() { Included(k) => Some((k.clone(), true)), Excluded(k) => Some((k.clone(), false)), Unbounded => None };
        let hi = match r.end_bound() { Included(k) => Some((k.clone(), true)), Excluded(k) => Some((k.clone(), false)), Unbounded => None };
        Iter { map: self, last: None, done: false, lo, hi }
    }
    pub fn keys(&self) -> Keys<'_, K, V> {
        Keys { it: self.iter() }
    }
    pub fn values(&self) -> Values<'_, K, V> {
        Values { it: self.iter() }
    }
}

pub struct Iter<'a, K, V> {
    map: &'a BTreeMap<K, V>,
    last: Option<usize>,
    done: bool,
    lo: Option<(K, bool)>,
    hi: Option<(K, bool)>,
}
impl<'a, K: Ord, V> Iterator for Iter<'a, K, V> {
    type Item = (&'a K, &'a V);
    fn next(&mut self) -> Option<Self::Item> {
        if self.done {
            return None;
        }
        // first step of a bounded range: smallest key satisfying the lower bound (one pass); afterwards: successor of the last key
        let idx = match (&self.last, &self.lo) {
            (None, Some((lo, incl))) => {
                let mut best: Option<usize> = None;
                let mut i = 0;
                while i < CAP {
                    if let Some((k, _)) = &self.map.slots[i] {
                        if k > lo || (*incl && k == lo) {
                            best = match best {
                                Some(b) => if k < &self.map.slots[b].as_ref().unwrap().0 { Some(i) } else { Some(b) },
                                None => Some(i),
                            };
                        }
                    }
                    i += 1;
                }
                best
            }
            _ => {
                let after = self.last.map(|j| &self.map.slots[j].as_ref().unwrap().0);
                self.map.next_idx(after)
            }
        };
        match idx {
            Some(i) => {
                let (k, v) = self.map.slots[i].as_ref().unwrap();
                self.last = Some(i);
                if let Some((hi, incl)) = &self.hi {
                    if k > hi || (!*incl && k == hi) { self.done = true; return None; }
                }
                Some((k, v))
            }
            None => {
                self.done = true;
                None
            }
        }
    }
}
pub struct Keys<'a, K, V> {
    it: Iter<'a, K, V>,
}
impl<'a, K: Ord, V> Iterator for Keys<'a, K, V> {
    type Item = &'a K;
    fn next(&mut self) -> Option<&'a K> {
        self.it.next().map(|(k, _)| k)
    }
}
pub struct Values<'a, K, V> {
    it: Iter<'a, K, V>,
}
impl<'a, K: Ord, V> Iterator for Values<'a, K, V> {
    type Item = &'a V;
    fn next(&mut self) -> Option<&'a V> {
        self.it.next().map(|(_, v)| v)
    }
}

impl<'a, K: Ord, V> Entry<'a, K, V> {
    pub fn or_insert_with<F: FnOnce() -> V>(self, f: F) -> &'a mut V {
        match self {
            Entry::Occupied(e) => e.into_mut(),
            Entry::Vacant(e) => e.insert(f()),
        }
    }
    pub fn or_insert(self, v: V) -> &'a mut V {
        self.or_insert_with(|| v)
    }
    pub fn or_default(self) -> &'a mut V
    where
        V: Default,
    {
        self.or_insert_with(V::default)
    }
}
impl<'a, K: Ord, V> OccupiedEntry<'a, K, V> {
    pub fn get(&self) -> &V {
        &self.map.slots[self.idx].as_ref().unwrap().1
    }
    pub fn get_mut(&mut self) -> &mut V {
        &mut self.map.slots[self.idx].as_mut().unwrap().1
    }
    pub fn into_mut(self) -> &'a mut V {
        &mut self.map.slots[self.idx].as_mut().unwrap().1
    }
    pub fn key(&self) -> &K {
        &self.map.slots[self.idx].as_ref().unwrap().0
    }
    pub fn remove(self) -> V {
        self.map.slots[self.idx].take().unwrap().1
    }
    pub fn remove_entry(self) -> (K, V) {
        self.map.slots[self.idx].take().unwrap()
    }
    pub fn insert(&mut self, v: V) -> V {
        std::mem::replace(&mut self.map.slots[self.idx].as_mut().unwrap().1, v)
    }
}
impl<'a, K: Ord, V> VacantEntry<'a, K, V> {
    pub fn insert(self, v: V) -> &'a mut V {
        let i = self.map.free();
        self.map.slots[i] = Some((self.key, v));
        &mut self.map.slots[i].as_mut().unwrap().1
    }
    pub fn key(&self) -> &K {
        &self.key
    }
}


/// HashMap with the same array-backed representation (needs K: Ord instead of Hash; iteration in key order)
pub type HashMap<K, V> = BTreeMap<K, V>;

/// Array-backed HashSet / BTreeSet
#[derive(Clone, Debug)]
pub struct HashSet<K> {
    inner: BTreeMap<K, ()>,
}
pub type BTreeSet<K> = HashSet<K>;

impl<K> Default for HashSet<K> {
    fn default() -> Self {
        HashSet { inner: BTreeMap::new() }
    }
}
impl<K> HashSet<K> {
    pub fn new() -> Self {
        Self::default()
    }
    pub fn len(&self) -> usize {
        self.inner.len()
    }
    pub fn is_empty(&self) -> bool {
        self.inner.len() == 0
    }
}
impl<K: Ord> HashSet<K> {
    pub fn insert(&mut self, k: K) -> bool {
        if self.inner.contains_key(&k) {
            false
        } else {
            self.inner.insert(k, ());
            true
        }
    }
    pub fn contains(&self, k: &K) -> bool {
        self.inner.contains_key(k)
    }
    pub fn remove(&mut self, k: &K) -> bool {
        self.inner.remove(k).is_some()
    }
    pub fn iter(&self) -> Keys<'_, K, ()> {
        self.inner.keys()
    }
}
impl<K: Ord> FromIterator<K> for HashSet<K> {
    fn from_iter<I: IntoIterator<Item = K>>(it: I) -> Self {
        let mut s = HashSet::new();
        for k in it {
            s.insert(k);
        }
        s
    }
}


/// Bit-set stand-in for HashSet / BTreeSet of SMALL unsigned integers (keys < 64, a stated bound: a larger key is
/// `assume(false)` under Kani). insert / contains are one shift each - no loops, trivial for the solver.
pub mod bitset {
    pub trait SmallKey: Copy {
        fn idx(&self) -> usize;
        fn from_idx(i: usize) -> Self;
    }
    macro_rules! sk { ($($t:ty),*) => {$(
        impl SmallKey for $t {
            fn idx(&self) -> usize { *self as usize }
            fn from_idx(i: usize) -> Self { i as $t }
        }
    )*}; }
    sk!(u8, u16, u32, u64, usize);

    fn bound(i: usize) {
        if i >= 64 {
            #[cfg(kani)]
            kani::assume(false);
            panic!("bitset key >= 64 (bound of the verification harness)");
        }
    }

    #[derive(Clone, Debug, PartialEq, Eq)]
    pub struct HashSet<K> {
        bits: u64,
        _k: std::marker::PhantomData<K>,
    }
    pub type BTreeSet<K> = HashSet<K>;
    impl<K> Default for HashSet<K> {
        fn default() -> Self {
            HashSet { bits: 0, _k: std::marker::PhantomData }
        }
    }
    impl<K: SmallKey> HashSet<K> {
        pub fn new() -> Self {
            Self::default()
        }
        pub fn insert(&mut self, k: K) -> bool {
            let i = k.idx();
            bound(i);
            let had = (self.bits >> i) & 1 == 1;
            self.bits |= 1u64 << i;
            !had
        }
        pub fn contains(&self, k: &K) -> bool {
            let i = k.idx();
            i < 64 && (self.bits >> i) & 1 == 1
        }
        pub fn remove(&mut self, k: &K) -> bool {
            let i = k.idx();
            if i >= 64 { return false; }
            let had = (self.bits >> i) & 1 == 1;
            self.bits &= !(1u64 << i);
            had
        }
        pub fn len(&self) -> usize {
            self.bits.count_ones() as usize
        }
        pub fn is_empty(&self) -> bool {
            self.bits == 0
        }
        pub fn iter(&self) -> Iter<K> {
            Iter { bits: self.bits, pos: 0, _k: std::marker::PhantomData }
        }
    }
    pub struct Iter<K> {
        bits: u64,
        pos: usize,
        _k: std::marker::PhantomData<K>,
    }
    impl<K: SmallKey> Iterator for Iter<K> {
        type Item = K;
        fn next(&mut self) -> Option<K> {
            while self.pos < 64 {
                let p = self.pos;
                self.pos += 1;
                if (self.bits >> p) & 1 == 1 {
                    return Some(K::from_idx(p));
                }
            }
            None
        }
    }
    impl<K: SmallKey> FromIterator<K> for HashSet<K> {
        fn from_iter<I: IntoIterator<Item = K>>(it: I) -> Self {
            let mut s = HashSet::new();
            for k in it {
                s.insert(k);
            }
            s
        }
    }
    impl<K: SmallKey> Extend<K> for HashSet<K> {
        fn extend<I: IntoIterator<Item = K>>(&mut self, it: I) {
            for k in it {
                self.insert(k);
            }
        }
    }
    impl<K: SmallKey> IntoIterator for HashSet<K> {
        type Item = K;
        type IntoIter = Iter<K>;
        fn into_iter(self) -> Iter<K> {
            self.iter()
        }
    }
    impl<'a, K: SmallKey> IntoIterator for &'a HashSet<K> {
        type Item = K;
        type IntoIter = Iter<K>;
        fn into_iter(self) -> Iter<K> {
            self.iter()
        }
    }
}


/// Direct-indexed stand-in for BTreeMap / HashMap with SMALL unsigned integer keys: slot index == key (keys < DCAP,
/// a stated bound: a larger key is `assume(false)` under Kani). Every lookup is one array access with a (possibly
/// symbolic) index - no search loops; ordered iteration and range() walk the slots in ascending order.
pub mod direct {
    use super::bitset::SmallKey;
    pub const DCAP: usize = 8;

    fn bound(i: usize) {
        if i >= DCAP {
            #[cfg(kani)]
            kani::assume(false);
            panic!("direct map key >= DCAP (bound of the verification harness)");
        }
    }

    #[derive(Clone, Debug)]
    pub struct BTreeMap<K, V> {
        pub slots: [Option<(K, V)>; DCAP],
        _k: std::marker::PhantomData<K>,
    }
    pub type HashMap<K, V> = BTreeMap<K, V>;

    pub enum Entry<'a, K, V> {
        Occupied(OccupiedEntry<'a, K, V>),
        Vacant(VacantEntry<'a, K, V>),
    }
    pub mod btree_map {
        pub use super::{Entry, OccupiedEntry, VacantEntry};
    }
    pub struct OccupiedEntry<'a, K, V> {
        map: &'a mut BTreeMap<K, V>,
        idx: usize,
        key: K,
    }
    pub struct VacantEntry<'a, K, V> {
        map: &'a mut BTreeMap<K, V>,
        idx: usize,
        key: K,
    }

    impl<K, V> Default for BTreeMap<K, V> {
        fn default() -> Self {
            BTreeMap { slots: [const { None }; DCAP], _k: std::marker::PhantomData }
        }
    }
    impl<K, V> BTreeMap<K, V> {
        pub fn new() -> Self {
            Self::default()
        }
        pub fn len(&self) -> usize {
            let mut n = 0;
            let mut i = 0;
            while i < DCAP {
                if self.slots[i].is_some() { n += 1; }
                i += 1;
            }
            n
        }
        pub fn is_empty(&self) -> bool {
            self.len() == 0
        }
        fn first_idx_from(&self, from: usize) -> Option<usize> {
            let mut i = from;
            while i < DCAP {
                if self.slots[i].is_some() { return Some(i); }
                i += 1;
            }
            None
        }
        fn last_idx(&self) -> Option<usize> {
            let mut best = None;
            let mut i = 0;
            while i < DCAP {
                if self.slots[i].is_some() { best = Some(i); }
                i += 1;
            }
            best
        }
    }
    impl<K: SmallKey, V> BTreeMap<K, V> {
        pub fn get(&self, k: &K) -> Option<&V> {
            let i = k.idx();
            if i >= DCAP { return None; }
            self.slots[i].as_ref().map(|(_, v)| v)
        }
        pub fn get_mut(&mut self, k: &K) -> Option<&mut V> {
            let i = k.idx();
            if i >= DCAP { return None; }
            self.slots[i].as_mut().map(|(_, v)| v)
        }
        pub fn contains_key(&self, k: &K) -> bool {
            self.get(k).is_some()
        }
        pub fn insert(&mut self, k: K, v: V) -> Option<V> {
            let i = k.idx();
            bound(i);
            self.slots[i].replace((k, v)).map(|(_, o)| o)
        }
        pub fn remove(&mut self, k: &K) -> Option<V> {
            let i = k.idx();
            if i >= DCAP { return None; }
            self.slots[i].take().map(|(_, v)| v)
        }
        pub fn entry(&mut self, key: K) -> Entry<'_, K, V> {
            let idx = key.idx();
            bound(idx);
            if self.slots[idx].is_some() {
                Entry::Occupied(OccupiedEntry { map: self, idx, key })
            } else {
                Entry::Vacant(VacantEntry { map: self, idx, key })
            }
        }
        pub fn first_entry(&mut self) -> Option<OccupiedEntry<'_, K, V>> {
            match self.first_idx_from(0) {
                Some(idx) => Some(OccupiedEntry { map: self, idx, key: K::from_idx(idx) }),
                None => None,
            }
        }
        pub fn last_entry(&mut self) -> Option<OccupiedEntry<'_, K, V>> {
            match self.last_idx() {
                Some(idx) => Some(OccupiedEntry { map: self, idx, key: K::from_idx(idx) }),
                None => None,
            }
        }
        // pop_first / pop_last take the element inside a loop over the CONCRETE slot index (a take() at a symbolic index is a
        // byte-level move at a symbolic offset for CBMC, which is far more expensive)
        pub fn pop_first(&mut self) -> Option<(K, V)> {
            let mut out = None;
            let mut i = 0;
            while i < DCAP {
                if out.is_none() && self.slots[i].is_some() {
                    out = self.slots[i].take();
                }
                i += 1;
            }
            out
        }
        pub fn pop_last(&mut self) -> Option<(K, V)> {
            let mut out = None;
            let mut i = DCAP;
            while i > 0 {
                i -= 1;
                if out.is_none() && self.slots[i].is_some() {
                    out = self.slots[i].take();
                }
            }
            out
        }
        pub fn first_key_value(&self) -> Option<(&K, &V)> {
            self.first_idx_from(0).map(|i| { let (k, v) = self.slots[i].as_ref().unwrap(); (k, v) })
        }
        pub fn last_key_value(&self) -> Option<(&K, &V)> {
            self.last_idx().map(|i| { let (k, v) = self.slots[i].as_ref().unwrap(); (k, v) })
        }
        pub fn retain<F: FnMut(&K, &mut V) -> bool>(&mut self, mut f: F) {
            let mut i = 0;
            while i < DCAP {
                let keep = match &mut self.slots[i] {
                    Some((k, v)) => f(k, v),
                    None => true,
                };
                if !keep { self.slots[i] = None; }
                i += 1;
            }
        }
        pub fn iter(&self) -> Iter<'_, K, V> {
            Iter { map: self, pos: 0, end: DCAP }
        }
        pub fn keys(&self) -> Keys<'_, K, V> {
            Keys { it: self.iter() }
        }
        pub fn values(&self) -> Values<'_, K, V> {
            Values { it: self.iter() }
        }
        /// entries with keys inside `r`, ascending
        pub fn range<R: std::ops::RangeBounds<K>>(&self, r: R) -> Iter<'_, K, V> {
            use std::ops::Bound::*;
            let lo = match r.start_bound() { Included(k) => k.idx(), Excluded(k) => k.idx().saturating_add(1), Unbounded => 0 };
            let hi = match r.end_bound() { Included(k) => k.idx().saturating_add(1), Excluded(k) => k.idx(), Unbounded => DCAP };
            Iter { map: self, pos: if lo > DCAP { DCAP } else { lo }, end: if hi > DCAP { DCAP } else { hi } }
        }
    }
    pub struct Iter<'a, K, V> {
        map: &'a BTreeMap<K, V>,
        pos: usize,
        end: usize,
    }
    impl<'a, K: SmallKey, V> Iterator for Iter<'a, K, V> {
        type Item = (&'a K, &'a V);
        fn next(&mut self) -> Option<Self::Item> {
            while self.pos < self.end {
                let p = self.pos;
                self.pos += 1;
                if let Some((k, v)) = &self.map.slots[p] {
                    return Some((k, v));
                }
            }
            None
        }
    }
    pub struct Keys<'a, K, V> { it: Iter<'a, K, V> }
    impl<'a, K: SmallKey, V> Iterator for Keys<'a, K, V> {
        type Item = &'a K;
        fn next(&mut self) -> Option<&'a K> { self.it.next().map(|(k, _)| k) }
    }
    pub struct Values<'a, K, V> { it: Iter<'a, K, V> }
    impl<'a, K: SmallKey, V> Iterator for Values<'a, K, V> {
        type Item = &'a V;
        fn next(&mut self) -> Option<&'a V> { self.it.next().map(|(_, v)| v) }
    }
    impl<'a, K: SmallKey, V> Entry<'a, K, V> {
        pub fn or_insert_with<F: FnOnce() -> V>(self, f: F) -> &'a mut V {
            match self {
                Entry::Occupied(e) => e.into_mut(),
                Entry::Vacant(e) => e.insert(f()),
            }
        }
        pub fn or_insert(self, v: V) -> &'a mut V { self.or_insert_with(|| v) }
        pub fn or_default(self) -> &'a mut V where V: Default { self.or_insert_with(V::default) }
    }
    impl<'a, K: SmallKey, V> OccupiedEntry<'a, K, V> {
        pub fn get(&self) -> &V { &self.map.slots[self.idx].as_ref().unwrap().1 }
        pub fn get_mut(&mut self) -> &mut V { &mut self.map.slots[self.idx].as_mut().unwrap().1 }
        pub fn into_mut(self) -> &'a mut V { &mut self.map.slots[self.idx].as_mut().unwrap().1 }
        pub fn key(&self) -> &K { &self.key }
        pub fn remove(self) -> V { self.map.slots[self.idx].take().unwrap().1 }
        pub fn remove_entry(self) -> (K, V) { self.map.slots[self.idx].take().unwrap() }
        pub fn insert(&mut self, v: V) -> V { std::mem::replace(&mut self.map.slots[self.idx].as_mut().unwrap().1, v) }
    }
    impl<'a, K: SmallKey, V> VacantEntry<'a, K, V> {
        pub fn insert(self, v: V) -> &'a mut V {
            self.map.slots[self.idx] = Some((self.key, v));
            &mut self.map.slots[self.idx].as_mut().unwrap().1
        }
        pub fn key(&self) -> &K { &self.key }
    }
}
